"""Harness side of C10: rebuild the synthetic machines of MC_Automata from cpppo's own classes, run them on an input,
report what the spec's Outcome predicts: completed?, symbols consumed (source.sent), terminal?, sub-machine runs."""
import cpppo

ALPHA = {1, 2, 3}


class Counted(object):
    """mix-in: counts how often the state is run (entered)"""
    entered = 0

    def run(self, *a, **kw):
        self.entered += 1
        for x in super(Counted, self).run(*a, **kw):
            yield x


class CNull(Counted, cpppo.state):
    pass


class CInput(Counted, cpppo.state_input):
    pass


class LenInput(Counted, cpppo.state_input):
    """stores the consumed symbol as an integer field (a parsed length)"""

    def process(self, source, machine=None, path=None, data=None):
        data[self.context(path)] = next(source)


def inp(name, terminal, alphabet=ALPHA):
    return CInput(name, terminal=terminal, alphabet=alphabet, typecode="B", context="sym")


def build(i):
    """-> (top dfa, state whose entries count the sub-machine runs)"""
    t, l, r = i["t"], i["l"], i["r"]
    lim = None if l < 0 else l
    if t == "blk":
        a, b, c = inp("1", False), inp("2", False), inp("3", True)
        a[True] = b
        b[True] = c
        return cpppo.dfa("blk", initial=a, limit=lim, terminal=True, context="m"), a
    if t == "star":
        z = CNull("0", terminal=True)
        s = inp("s", True, alphabet={1})
        z[1] = s
        s[1] = s
        return cpppo.dfa("star", initial=z, limit=lim, terminal=True, context="m"), z
    if t == "rep":
        a, b = inp("a", False), inp("b", True)
        a[True] = b
        return cpppo.dfa("rep", initial=a, limit=lim, repeat=r, terminal=True, context="m"), a
    if t == "opt":
        c = CNull("c", terminal=False)
        x = inp("x", True, alphabet={1})
        e = CNull("e", terminal=True)
        c[1] = x
        c[None] = e
        return cpppo.dfa("opt", initial=c, limit=lim, repeat=r, terminal=True, context="m"), c
    if t == "len":
        n = LenInput("n", terminal=False, alphabet=ALPHA, typecode="B", context="len", extension="")
        y = inp("y", True)
        body = cpppo.dfa("body", initial=y, repeat=".len", terminal=True)
        n[None] = body
        tr = inp("t", True)
        w = cpppo.dfa("w", initial=n, limit=lim, terminal=False)
        w[None] = tr
        return cpppo.dfa("len", initial=w, terminal=True, context="m"), y
    if t == "fld":
        n = LenInput("n", terminal=False, alphabet=ALPHA, typecode="B", context="len", extension="")
        z = CNull("0", terminal=True)
        s = inp("s", True)
        z[True] = s
        s[True] = s
        g = cpppo.dfa("g", initial=z, limit=".len", terminal=False)
        n[None] = g
        tr = inp("t", True)
        g[None] = tr
        return cpppo.dfa("fld", initial=n, limit=lim, terminal=True, context="m"), z
    if t == "nest":
        z = CNull("0", terminal=True)
        s = inp("s", True)
        z[True] = s
        s[True] = s
        inner = cpppo.dfa("i", initial=z, limit=r, terminal=True)
        return cpppo.dfa("nest", initial=inner, limit=lim, terminal=True, context="m"), z
    if t == "mis":
        z = CNull("0", terminal=True)
        s = inp("s", True)
        z[True] = s
        s[True] = s
        inner = cpppo.dfa("i", initial=z, limit=".nope", terminal=True)      # the data path is never stored
        return cpppo.dfa("mis", initial=inner, limit=lim, terminal=True, context="m"), z
    raise ValueError(t)


class CountingIter(object):
    """the raw symbol supply: counts what is actually handed out"""

    def __init__(self, symbols):
        self.symbols = list(symbols)
        self.taken = 0

    def __iter__(self):
        return self

    def __next__(self):
        if self.taken >= len(self.symbols):
            raise StopIteration
        self.taken += 1
        return self.symbols[self.taken - 1]
    next = __next__


def run_machine(top, symbols, chunks=None, guard=2000):
    """-> dict(done, sent, terminal, exc, remaining) ; `remaining` = symbols left in the source afterwards"""
    raw = CountingIter(symbols)
    source = cpppo.chainable(raw)
    data = cpppo.dotdict()
    exc = ""
    term = False
    try:
        with top:
            n = 0
            for mch, sta in top.run(source=source, data=data):
                n += 1
                if n > guard:
                    exc = "LOOP"
                    break
            term = top.terminal
    except Exception as e:
        exc = type(e).__name__
    sent = source.sent
    remaining = len(list(source))
    return {"done": not exc, "sent": sent, "terminal": bool(term) and not exc, "exc": exc, "remaining": remaining,
            "actual": len(symbols) - remaining}


def exec_instance(job):
    inst, inputs, res = job
    out = []
    for syms, want in zip(inputs, res):
        top, counter = build(inst)
        got = run_machine(top, syms)
        got["runs"] = counter.entered
        out.append(got)
    return out
