"""Harness side of C18: materialise a scenario with the real history logger under a virtual clock, replay it with the
real loader under the same clock and a schedule of load() calls, record what each call returned."""
import bz2
import warnings
import gzip
import os
import shutil
import tempfile

BASE = 1500000000.0      # wall-clock origin (epoch seconds) of timestamp 0


class Clock(object):
    def __init__(self):
        self.t = BASE

    def __call__(self):
        return self.t


def run_scenario(job):
    """job = (scenario record from TLC, limit, variant) -> trace line
    variant: 0 plain files; 1 older files gzip'ed; 2 bz2; 3 plain + gz duplicate of every rotated file; 4 comment and
    corrupt records (not JSON; JSON but no register map) inserted after the first record of every file; 5 a comment line before the first and after the last record; 6 entries that match the history's name but cannot be opened
    (a directory, a dangling symbolic link) lie beside the files"""
    warnings.filterwarnings("ignore")
    import cpppo.history.files as hf
    import cpppo.history.times as ht
    from cpppo.history import timestamp
    j, limit, variant = job[:3]
    per_tick = job[3] if len(job) > 3 else 12          # load() calls per tick: until it returns nothing (<= 12), or exactly this many
    sc = j["sc"]
    clock = Clock()
    saved = (hf.timer, ht.timer)
    hf.timer = clock
    ht.timer = clock
    d = tempfile.mkdtemp(prefix="c18_")
    out = {"sc": sc, "ev": [], "values": [], "limit": limit, "variant": variant, "per_tick": per_tick}
    try:
        path = os.path.join(d, "hist")
        nfiles = len(sc["files"])
        serial = 0
        for fi, recs in enumerate(sc["files"]):                   # oldest first
            age = nfiles - 1 - fi                                  # 0 = newest = path itself
            name = path if age == 0 else "%s.%d" % (path, age - 1)
            with hf.logger(name) as lg:
                if variant == 5:
                    lg.comment("history file begins")
                for n, r in enumerate(recs):
                    lg.write({str(r["reg"]): r["val"]}, now=BASE + r["ts"], serial=serial)
                    serial += 1
                    if variant == 4 and n == 0:
                        lg.comment("a comment line")
                        lg._append("%s\t%d\t{ this is not json\n" % (timestamp(BASE + r["ts"]), serial))
                        # ... and records whose payload is JSON all right, but no register map: a list, a number, true
                        lg._append("\n")               # (a blank line in the middle of a file is no end of file)
                        for junk in ("[40001, 12]", "7", "true", "{\"40002\": null}", "{\"40002\": [1]}"):
                            lg._append("%s\t%d\t%s\n" % (timestamp(BASE + r["ts"]), serial, junk))
                if variant == 5:
                    lg.comment("history file ends")
            if age > 0 and variant in (1, 2, 3):
                comp, ext = (gzip.open, ".gz") if variant in (1, 3) else (bz2.open, ".bz2")
                with open(name, "rb") as src, comp(name + ext, "wb") as dst:
                    shutil.copyfileobj(src, dst)
                if variant != 3:
                    os.unlink(name)
        if variant == 6:
            os.mkdir(path + ".0.d")
            os.symlink(path + ".gone", path + ".99")
        last = max(r["ts"] for f in sc["files"] for r in f)
        ld = hf.loader(path, historical=BASE + sc["start"], basis=BASE, factor=float(sc["factor"]),
                       lookahead=float(sc["lookahead"]) if sc["lookahead"] else None)
        nrec = sum(len(f) for f in sc["files"])
        horizon = max(0, last - sc["start"]) + 3 + (2 * nrec + 4 if per_tick < 12 else 0)     # (one limited load per tick needs more ticks)
        for now in range(0, horizon + 1):
            clock.t = BASE + now
            for _ in range(per_tick):
                cur, events = ld.load(limit=limit or None)
                evs = []
                for e in events:
                    ts = int(round(e["timestamp"].value - BASE))
                    for reg, val in e["values"].items():
                        evs.append([ts, int(reg), int(val)])
                out["ev"].append({"now": now, "limit": limit, "events": evs, "alive": bool(ld)})
                if not events:
                    break
            if not ld:
                break
        out["values"] = sorted([int(r), int(tv[1])] for r, tv in ld.values.items())
        out["state"] = ld.state
    except Exception as exc:
        out["ev"].append({"now": 99, "limit": limit, "events": [[-99, 0, 0]], "alive": True})
        out["exc"] = repr(exc)
    finally:
        hf.timer, ht.timer = saved
        shutil.rmtree(d, ignore_errors=True)
    return out
