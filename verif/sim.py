"""In-process drivers around the real cpppo simulator objects.

Levels of execution (all run the unmodified cpppo code):
  * CM level : Connection_Manager.request on raw CIP request octets (routing, parsing, Object.request, produce)
  * frame    : logix.process on a complete parsed EtherNet/IP frame (adds encapsulation, CPF, Unconnected Send)
  * socket   : enip_srv_tcp around a scripted socket (adds framing / receive loop), see vsock.py
Element values cross the harness boundary as octet lists; the codecs here use only int.to_bytes / struct.
"""
import random
import struct

import cpppo
from cpppo.server.enip import device, logix, parser
from cpppo.server.enip import ucmm as ucmm_mod
from cpppo.server.enip.device import Attribute

SIZES = {"BOOL": 1, "SINT": 1, "USINT": 1, "INT": 2, "UINT": 2, "DINT": 4, "UDINT": 4, "LINT": 8, "ULINT": 8,
         "REAL": 4, "LREAL": 8, "SSTRING": 0, "STRING": 0}
SIGNED = {"SINT", "INT", "DINT", "LINT"}
DEFAULTS = {"REAL": 0.0, "LREAL": 0.0, "SSTRING": "", "STRING": ""}
ADDR = ("127.0.0.1", 12345)


def dec_elem(t, b):
    """octets -> the Python value cpppo would hold for an element of type t"""
    b = bytes(bytearray(b))
    if t == "BOOL":
        return bool(b[0])
    if t in ("SSTRING", "STRING"):
        return b.decode("iso-8859-1")
    if t == "REAL":
        return struct.unpack("<f", b)[0]
    if t == "LREAL":
        return struct.unpack("<d", b)[0]
    return int.from_bytes(b, "little", signed=t in SIGNED)


def enc_elem(t, v):
    """the octets an element of type t holding Python value v denotes; [] if v is not representable in t"""
    try:
        if t == "BOOL":
            return [255 if v else 0]
        if t in ("SSTRING", "STRING"):
            return list(v.encode("iso-8859-1")) if isinstance(v, str) else list(bytearray(v))
        if t == "REAL":
            return list(struct.pack("<f", v))
        if t == "LREAL":
            return list(struct.pack("<d", v))
        if isinstance(v, float):
            if v != int(v):
                return []
            v = int(v)
        return list(int(v).to_bytes(SIZES[t], "little", signed=t in SIGNED))
    except (OverflowError, struct.error, ValueError, TypeError, AttributeError):
        return []


def route_py(segs):
    """spec route path segments -> the list-of-dicts form cpppo configuration uses"""
    out = []
    for g in segs:
        if g["k"] == "port":
            out.append({"port": g["p"], "link": g["l"]})
        else:
            out.append({"port": g["p"], "link": bytes(bytearray(g["a"])).decode("ascii")})
    return out


class Device(object):
    """A freshly configured simulator: tags per `cfg` (the spec's configuration record)."""

    def __init__(self, cfg, attribute_class=Attribute, pers=None, defer=False, via_main=False, budget_via="class"):
        """defer=True: the CIP objects and tags are NOT set up yet -- the first request does it (logix.process(..., tags=self.tags)),
        as in a freshly started simulator"""
        self.cfg = cfg
        device.lookup_reset()
        logix.setup_reset()
        ucmm_mod.UCMM.sessions.clear()
        # the reply size budget is a class attribute of the Message Router: set on the Logix class itself, or -- the other way a
        # user configures it -- on a derived class handed to logix.setup as message_router_class
        logix.Logix.MAX_BYTES = cfg["budget"] if budget_via == "class" else 488
        self.router_class = None
        if budget_via == "subclass":
            self.router_class = type("Router", (logix.Logix,), {"MAX_BYTES": cfg["budget"]})
        device.Connection_Manager.forwards.clear() if hasattr(device.Connection_Manager, "forwards") else None
        self.attrs = []
        tags = cpppo.dotdict()
        for tg in cfg["tags"]:
            name = bytes(bytearray(tg["name"])).decode("iso-8859-1")
            t = tg["type"]
            d0 = DEFAULTS.get(t, 0)
            default = d0 if tg["scalar"] else [d0] * tg["len"]
            att = attribute_class(name, getattr(parser, t), default=default)
            cia = tg["cia"]
            path = None
            if (cia[0], cia[1]) != (2, 1):
                path = {"segment": [{"class": cia[0]}, {"instance": cia[1]}, {"attribute": cia[2]}]}
            ent = cpppo.dotdict()
            ent.attribute = att
            ent.path = path
            ent.error = tg.get("error", 0)          # a forced error code (the simulator's way of playing a failing device)
            dict.__setitem__(tags, name, ent)
            self.attrs.append(att)
        if via_main:
            # the tag definitions go through the simulator's own command line ('NAME[@c/i/a]=TYPE[len]') and main(): the
            # Attributes are the ones main() builds (the network server loop is replaced by a stub that captures them)
            texts = []
            for tg in cfg["tags"]:
                name = bytes(bytearray(tg["name"])).decode("iso-8859-1")
                cia = tg["cia"]
                at = "" if (cia[0], cia[1]) == (2, 1) else "@%d/%d/%d" % tuple(cia)
                texts.append("%s%s=%s%s" % (name, at, tg["type"], "" if tg["scalar"] else "[%d]" % tg["len"]))
            from cpppo.server import network
            from cpppo.server.enip import main as enip_main
            captured = {}

            def stub(address=None, target=None, kwargs=None, **kwds):
                captured.update(kwargs)
                kwargs["server"]["control"]["done"] = True
            saved = network.server_main
            network.server_main = stub
            dict.clear(enip_main.tags)          # (main() keeps its tags in a module-level table: a fresh simulator starts with none)
            try:
                enip_main.main(argv=["--no-config", "--address", "localhost:0"] + texts, attribute_class=attribute_class)
            finally:
                network.server_main = saved
            tags = captured["tags"]
            for tg in cfg["tags"]:          # (forced error codes are not part of the command line syntax: set on the entries main() built)
                if tg.get("error"):
                    dict.__getitem__(tags, bytes(bytearray(tg["name"])).decode("iso-8859-1")).error = tg["error"]
            self.attrs = [dict.__getitem__(tags, bytes(bytearray(tg["name"])).decode("iso-8859-1")).attribute for tg in cfg["tags"]]
        self.tags = tags
        kw = {}
        if pers is not None and pers["k"] == "routing":
            table = dict(pers["route"])                   # {"<port>/<link>": "host:port"}: requests routed to a remote device

            class UCMM(ucmm_mod.UCMM):                    # as a [UCMM] Route configuration does
                route = table
            kw["UCMM_class"] = UCMM
        elif pers is not None and pers["k"] != "any":
            # a simple (non-routing) device is configured with any false value: False (--simple), an empty list (--route-path '[]'), 0
            rp = {"zero": 0, "empty": device.parse_route_path("[]")}.get(pers.get("form"), False) if pers["k"] == "simple" else route_py(pers["segs"])
            # (the empty list as the command line / configuration file text '[]' yields it)

            class UCMM(ucmm_mod.UCMM):          # as main() does for --route-path / --simple
                route_path = rp
            kw["UCMM_class"] = UCMM
        self.names = [bytes(bytearray(tg["name"])).decode("iso-8859-1") for tg in cfg["tags"]]
        self.cm = None
        if defer:
            return
        if self.router_class is not None:
            kw["message_router_class"] = self.router_class
        self.ucmm = logix.setup(tags=tags, **kw)
        self.names = [bytes(bytearray(tg["name"])).decode("iso-8859-1") for tg in cfg["tags"]]
        got = [tuple(device.resolve_tag(n) or ()) for n in self.names]
        want = [tuple(tg["cia"]) for tg in cfg["tags"]]
        if got != want and len(set(got)) == len(got):
            # a different but alias-free allocation: the model's addresses would be wrong (not a property violation)
            raise RuntimeError("tags allocated at %r, configuration says %r" % (got, want))
        self.cm = device.lookup(6, 1)

    def attr_of(self, i):
        """the Attribute the device itself resolves tag i to (not the object the harness created)"""
        res = device.resolve_tag(self.names[i])
        att = device.lookup(*res) if res else None
        return att if att is not None else self.attrs[i]

    def set_mem(self, mem, keep_equal=False):
        """keep_equal: a tag that already holds the wanted values is left alone (its storage stays the object the simulator built)"""
        cur = self.get_mem() if keep_equal else None
        for i, (tg, vals) in enumerate(zip(self.cfg["tags"], mem)):
            if cur is not None and cur[i] == vals:
                continue
            att = self.attr_of(i)
            pv = [dec_elem(tg["type"], b) for b in vals]
            att.default = pv[0] if att.scalar else pv

    def get_mem(self):
        out = []
        for i, tg in enumerate(self.cfg["tags"]):
            att = self.attr_of(i)
            vals = [att.default] if att.scalar else list(att.default)
            out.append([enc_elem(tg["type"], v) for v in vals])
        return out

    def cip(self, reqbytes):
        """One CIP request through Connection_Manager.request; reply octets, or [] if it raised."""
        d = cpppo.dotdict()
        d.request = cpppo.dotdict(input=bytearray(reqbytes))
        try:
            self.cm.request(d, addr=ADDR)
            return list(bytearray(d.request.input))
        except Exception:
            return []


def reset_random(seed=0):
    random.seed(seed)
