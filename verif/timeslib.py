"""Harness side of C17: an independent reader of the installed tz database (TZif), drivers for the real timestamp and
duration classes.  No arithmetic oracle here -- the recorded observations are judged by TLC (TimesTrace / MC_Times)."""
import os
import struct
import warnings
import zoneinfo


def tzfile(zone):
    for d in zoneinfo.TZPATH:
        p = os.path.join(d, zone)
        if os.path.isfile(p):
            return p
    import tzdata
    p = os.path.join(os.path.dirname(tzdata.__file__), "zoneinfo", zone)
    return p if os.path.isfile(p) else None


def transitions(zone):
    """[(utc instant, offset before, offset after)] from the 64-bit block of the TZif file"""
    p = tzfile(zone)
    if not p:
        return []
    data = open(p, "rb").read()

    def header(at):
        magic, ver = data[at:at + 4], data[at + 4:at + 5]
        assert magic == b"TZif"
        counts = struct.unpack(">6l", data[at + 20:at + 44])
        return ver, counts
    ver, (isutc, isstd, leap, timecnt, typecnt, charcnt) = header(0)
    at = 44
    if ver >= b"2":
        at += timecnt * 4 + timecnt + typecnt * 6 + charcnt + leap * 8 + isstd + isutc
        ver, (isutc, isstd, leap, timecnt, typecnt, charcnt) = header(at)
        at += 44
        tsz, fmt = 8, ">%dq"
    else:
        tsz, fmt = 4, ">%dl"
    times = struct.unpack(fmt % timecnt, data[at:at + timecnt * tsz])
    at += timecnt * tsz
    idx = list(data[at:at + timecnt])
    at += timecnt
    types = [struct.unpack(">lBB", data[at + 6 * i:at + 6 * i + 6]) for i in range(typecnt)]
    out = []
    for i in range(1, timecnt):
        off0, off1 = types[idx[i - 1]][0], types[idx[i]][0]
        if off0 != off1:
            out.append((times[i], off0, off1))
    return out


def zone_probe(job):
    """job = (zone, T, off0, off1, delta, ms, precision): render instant T+delta(+ms) in the zone with its generic name,
    parse it back"""
    warnings.filterwarnings("ignore")
    from cpppo.history import timestamp
    zone, T, off0, off1, delta, ms, prec = job
    u = T + delta
    val = u + ms / 1000.0
    import math
    # the instant that is actually rendered is the value rounded to the rendered precision (x.9996 s carries into the next second)
    rec = {"zone": zone, "at": T, "off0": off0, "off1": off1, "u": int(math.floor(round(val, prec))), "frac": ms, "prec": prec, "asked": u}
    try:
        text = timestamp(val).render(tzinfo=zone, ms=prec, tzdetail=True)
    except Exception as exc:
        rec.update(res="other", got=0, text="render failed: %r" % exc)
        return rec
    rec["text"] = text
    try:
        back = timestamp(text).value
    except ValueError:
        rec.update(res="reject", got=0)
        return rec
    except Exception as exc:
        rec.update(res="other", got=0, text=text + " -> %r" % exc)
        return rec
    tol = 0.0006 if prec >= 3 else (0.5 * 10 ** -prec + 1e-6)
    rec.update(res="same" if abs(back - val) <= tol else "other", got=int(round(back * 1000)))
    return rec


def duration_text(toks):
    out = ""
    for n, unit in toks:
        if unit == "frac":
            out += ("%d.%06d" % (n // 1000000, n % 1000000)).rstrip("0") + "s"
        else:
            out += "%d%s" % (n, unit)
    return out


def duration_probe(j):
    import datetime
    from cpppo.history.times import duration
    td = datetime.timedelta(seconds=j["sec"], microseconds=j["us"])
    out = {"sec": j["sec"], "us": j["us"]}
    try:
        text = str(duration(td))
        back = duration(text).timedelta
        out.update(text=text, rt=[back.days * 86400 + back.seconds, back.microseconds])
        spec_text = duration_text(j["toks"])
        b2 = duration(spec_text).timedelta
        out.update(spec_text=spec_text, rt_spec=[b2.days * 86400 + b2.seconds, b2.microseconds])
    except Exception as exc:
        out.update(text="EXC %r" % exc, rt=[-1, -1], rt_spec=[-1, -1], spec_text="")
    return out


def pair_probe(job):
    warnings.filterwarnings("ignore")
    from cpppo.history import timestamp
    base, j = job
    a, b = timestamp(base + j["a"] / 1e6), timestamp(base + j["b"] / 1e6)

    def ms_of(ts):
        s = str(ts)                       # 'YYYY-MM-DD HH:MM:SS.mmm' UTC
        hh, mm, rest = s.split(" ")[1].split(":")
        return (int(hh) * 3600 + int(mm) * 60) * 1000 + int(rest.replace(".", ""))
    base_ms = ms_of(timestamp(base))
    out = {"a": j["a"], "b": j["b"], "ra": ms_of(a) - base_ms, "rb": ms_of(b) - base_ms, "lt": a < b, "gt": a > b, "eq": a == b,
           "strs": [str(a), str(b)]}
    # the same instant b reached by arithmetic from the (already rendered) a, and back: renders and compares like b
    d = (j["b"] - j["a"]) / 1e6
    b2 = a + d
    a2 = b2 - d
    out.update(rb2=ms_of(b2) - base_ms, ra2=ms_of(a2) - base_ms, eq2=(b2 == b) and (a2 == a), lt2=a < b2)
    return out


def ts_probe(job):
    """one history of str() / += / -= on a real timestamp object (spec/TsObject.tla): what it shows at the end"""
    warnings.filterwarnings("ignore")
    from cpppo.history import timestamp
    base, j = job

    def ms_of(ts):
        s = str(ts)
        hh, mm, rest = s.split(" ")[1].split(":")
        return (int(hh) * 3600 + int(mm) * 60) * 1000 + int(rest.replace(".", ""))
    base_ms = ms_of(timestamp(base))
    orig = timestamp(base + j["start"] / 1e6)
    ts = timestamp(base + j["start"] / 1e6)
    try:
        for op, d in j["h"]:
            if op == "str":
                str(ts)
            elif op == "iadd":
                ts += d / 1e6
            else:
                ts -= d / 1e6
        fresh = timestamp(base + j["u"] / 1e6)
        return {"shown": ms_of(ts) - base_ms, "utc": ts.utc, "fresh": ms_of(fresh) - base_ms, "eq": ts == fresh, "lt0": ts < orig, "gt0": ts > orig,
                "orig": ms_of(orig) - base_ms, "exc": ""}
    except Exception as exc:
        return {"shown": -1, "utc": "", "fresh": -1, "eq": False, "lt0": False, "gt0": False, "orig": -1, "exc": repr(exc)}
