"""Harness side of C01: map a spec vector onto cpppo's own data model, produce with cpppo, parse with cpppo, compare.
The mapping is a renaming table (spec field -> dotdict key); all octets come from the TLA+ encoder."""
import cpppo
from cpppo.server.enip import parser, device, logix

from . import sim


def S(chars):
    return bytes(bytearray(chars)).decode("iso-8859-1")


def seg_py(g):
    k = g["k"]
    if k == "sym":
        return {"symbolic": S(g["s"])}
    if k == "port":
        return {"port": g["p"], "link": g["l"]}
    if k == "porta":
        return {"port": g["p"], "link": S(g["a"])}
    if k == "elem32":
        return {"element": g["w"][0] + 65536 * g["w"][1]}
    name = {"class": "class", "inst": "instance", "attr": "attribute", "elem": "element", "conn": "connection"}[k]
    return {name: g["v"]}


def dd(x):
    """plain nested dict/list -> dotdicts all the way down (cpppo's producers use attribute access)"""
    if isinstance(x, dict):
        d = cpppo.dotdict()
        for k, v in x.items():
            dict.__setitem__(d, k, dd(v))
        return d
    if isinstance(x, list):
        return [dd(v) for v in x]
    return x


def path_py(segs):
    return {"segment": [seg_py(g) for g in segs]}


def run_parser(machine, octets, limit=None):
    """parse octets with a cpppo machine; -> (data, consumed, terminal, exception name)"""
    source = cpppo.peekable(bytes(bytearray(octets)))
    data = cpppo.dotdict()
    try:
        with machine as m:
            for _ in m.run(source=source, data=data):
                pass
            term = m.terminal
    except Exception as exc:
        return data, source.sent, False, type(exc).__name__
    return data, source.sent, term, ""


def subset(want, got, path=""):
    """every field of `want` must be present in `got` with an equal value; returns list of differences"""
    diffs = []
    if isinstance(want, dict):
        for k, v in want.items():
            try:
                g = got[k]
            except Exception:
                diffs.append("%s.%s missing" % (path, k))
                continue
            diffs += subset(v, g, path + "." + str(k))
    elif isinstance(want, (list, tuple)):
        try:
            gl = list(got)
        except Exception:
            return ["%s not a list: %r" % (path, got)]
        if len(gl) != len(want):
            diffs.append("%s length %d != %d" % (path, len(gl), len(want)))
        else:
            for i, (w, g) in enumerate(zip(want, gl)):
                diffs += subset(w, g, "%s[%d]" % (path, i))
    else:
        if isinstance(want, float) or isinstance(got, float):
            import struct
            ok = want == got or (want != want and got != got)
        else:
            ok = want == got
        if not ok:
            diffs.append("%s: %r != %r" % (path, got, want))
    return diffs


def lreq_py(cfg, r):
    """spec Logix request record -> cpppo request dotdict"""
    d = {}
    if r["svc"] == "multi":
        d["multiple"] = {"request": [lreq_py(cfg, m) for m in r["ms"]]}
        d["path"] = {"segment": [{"class": 2}, {"instance": 1}]}
        d["service"] = 0x0A
        return d
    if r["svc"] in ("gal", "gaa"):
        c, i = (cfg["tags"][r["tag"] - 1]["cia"][:2] if r["tag"] else ((119, 1) if r["mode"] == "noclass" else (2, 7)))
        d["path"] = {"segment": [{"class": c}, {"instance": i}]}
        if r["svc"] == "gal":
            d["service"] = 0x03
            d["get_attribute_list"] = list(r["attrs"])
        else:
            d["service"] = 0x01
            d["get_attributes_all"] = True
        return d
    if r["tag"] == 0:
        segs = [{"symbolic": "NOPE"}]
    elif r["mode"] == "sym":
        segs = [{"symbolic": S(cfg["tags"][r["tag"] - 1]["name"])}]
    else:
        c, i, a = cfg["tags"][r["tag"] - 1]["cia"]
        segs = [{"class": c}, {"instance": i}, {"attribute": a}]
    if r["idx"] >= 0:
        segs.append({"element": r["idx"]})
    d["path"] = {"segment": segs}
    svc = r["svc"]
    vals = [sim.dec_elem(r["typ"], v) for v in r["vals"]]
    code = parser_code(r["typ"])
    if svc == "read":
        d["service"] = 0x4C
        d["read_tag"] = {"elements": r["n"]}
    elif svc == "readf":
        d["service"] = 0x52
        d["read_frag"] = {"elements": r["n"], "offset": r["off"]}
    elif svc == "write":
        d["service"] = 0x4D
        d["write_tag"] = {"elements": r["n"], "type": code, "data": vals}
    elif svc == "writef":
        d["service"] = 0x53
        d["write_frag"] = {"elements": r["n"], "offset": r["off"], "type": code, "data": vals}
    elif svc == "gas":
        d["service"] = 0x0E
        d["get_attribute_single"] = True
    elif svc == "sas":
        d["service"] = 0x10
        d["set_attribute_single"] = {"data": list(r["bytes"])}
    return d


def parser_code(t):
    return getattr(parser, t).tag_type


def lrpy_py(cfg, r, o, t):
    """spec outcome -> cpppo reply dotdict"""
    svc = {"read": 0x4C, "readf": 0x52, "write": 0x4D, "writef": 0x53, "gas": 0x0E, "sas": 0x10, "gal": 0x03, "gaa": 0x01}[r["svc"]] | 0x80
    d = {"service": svc}
    if o["k"] in ("ok", "okbytes"):
        d["status"] = o["st"]
    elif o["k"] == "err":
        d["status"] = o["st"]
        d["status_ext"] = {"size": len(o["ext"]), "data": list(o["ext"])}
    else:
        d["status"] = 5
        d["status_ext"] = {"size": 1, "data": [0]}
    if o["k"] == "ok" and r["svc"] in ("read", "readf"):
        ctx = "read_tag" if r["svc"] == "read" else "read_frag"
        d[ctx] = {"type": parser_code(t), "data": [sim.dec_elem(t, v) for v in o["data"]]}
    if o["k"] == "okbytes":
        d[{"gal": "get_attribute_list", "gaa": "get_attributes_all"}.get(r["svc"], "get_attribute_single")] = {"data": list(o["data"])}
    return d
