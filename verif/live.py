"""Live TCP simulator in a thread (the real network.server_main / enip_srv / logix.process), and a fault-injecting relay.

One live server per process: the CIP object registry of cpppo is process-global.  Ports are chosen by the OS (port 0)."""
import select
import socket
import threading
import time

import cpppo
from cpppo.server import network
from cpppo.server.enip import logix
from cpppo.server.enip import main as enip_main

from . import sim


class LiveServer(object):
    def __init__(self, cfg, pers=None, attribute_class=sim.Attribute):
        self.dev = sim.Device(cfg, pers=pers, attribute_class=attribute_class)
        self.control = cpppo.dotdict(latency=0.02, timeout=0.5)
        kwargs = dict(enip_process=logix.process, server=cpppo.dotdict(control=self.control), latency=0.02)
        self.thread = threading.Thread(target=network.server_main, daemon=True, kwargs=dict(
            address=("127.0.0.1", 0), target=enip_main.enip_srv, kwargs=kwargs, udp=False))
        self.thread.start()
        t0 = time.time()
        while "address" not in self.control:
            if time.time() - t0 > 10:
                raise RuntimeError("live simulator did not start")
            time.sleep(0.005)
        self.address = tuple(self.control["address"])

    def stop(self):
        self.control["done"] = True
        self.thread.join(5)

    def __enter__(self):
        return self

    def __exit__(self, *a):
        self.stop()


class RemoteSim(object):
    """a second simulator in its own process (the real `python -m cpppo.server.enip.main'): the target of routed requests"""

    def __init__(self, tagtexts):
        import os
        import re
        import subprocess
        import sys
        from . import core
        env = dict(os.environ)
        root = os.environ.get("CPPPO_ROOT") or "/repo"
        if os.path.basename(os.path.normpath(root)) == "cpppo":
            env["PYTHONPATH"] = os.path.dirname(os.path.normpath(root)) + os.pathsep + env.get("PYTHONPATH", "")
        self.proc = subprocess.Popen([sys.executable, "-m", "cpppo.server.enip", "--no-config", "-A", "--no-udp", "--address", "127.0.0.1:0"] + list(tagtexts),
                                     stdout=subprocess.PIPE, stderr=subprocess.DEVNULL, env=env, universal_newlines=True, cwd="/")
        self.address = None
        t0 = time.time()
        while time.time() - t0 < 20:
            line = self.proc.stdout.readline()
            if not line:
                break
            m = re.search(r"TCP Server address = \('([^']+)', (\d+)\)", line)
            if m:
                self.address = (m.group(1), int(m.group(2)))
                break
        if not self.address:
            self.stop()
            raise RuntimeError("remote simulator did not start")

    def stop(self):
        try:
            self.proc.kill()
            self.proc.wait(5)
        except Exception:
            pass


class Relay(object):
    """TCP forwarder client <-> server that can cut a direction after exactly k octets (closing both sides), or swallow the
    server's replies entirely.  Records the octets that crossed in each direction."""

    def __init__(self, target, cut_s2c=None, cut_c2s=None, silence=False, drop_frame=None, stall=None, delay=None, every=False):
        """delay: every server-to-client chunk is held back this many seconds (a slow link); every: the faults apply to every
        connection, not only the first"""
        """drop_frame = i: the i-th server-to-client frame (0 = first) is swallowed, the connection continues;
        stall = (after_octets, seconds): after that many server-to-client octets, delivery pauses for `seconds'"""
        self.target = target
        self.cut_s2c, self.cut_c2s, self.silence = cut_s2c, cut_c2s, silence
        self.drop_frame, self.stall = drop_frame, stall
        self.delay, self.every = delay, every
        self.lsock = socket.socket(socket.AF_INET, socket.SOCK_STREAM)
        self.lsock.bind(("127.0.0.1", 0))
        self.lsock.listen(5)
        self.address = self.lsock.getsockname()
        self.s2c = bytearray()
        self.c2s = bytearray()
        self.done = False
        self.conns = 0
        self.thread = threading.Thread(target=self._accept, daemon=True)
        self.thread.start()

    def _accept(self):
        self.lsock.settimeout(0.05)
        while not self.done:
            try:
                c, _ = self.lsock.accept()
            except socket.timeout:
                continue
            except OSError:
                return
            self.conns += 1
            first = self.conns == 1 or self.every
            threading.Thread(target=self._pump, args=(c, first), daemon=True).start()

    def _pump(self, c, faulty):
        s = socket.create_connection(self.target)
        s2c_left = self.cut_s2c if faulty else None
        c2s_left = self.cut_c2s if faulty else None
        silence = self.silence and faulty
        drop = self.drop_frame if faulty else None
        stall = self.stall if faulty else None
        fbuf, fidx, passed = bytearray(), 0, 0
        try:
            while not self.done:
                r, _, _ = select.select([c, s], [], [], 0.05)
                for sock in r:
                    data = sock.recv(4096)
                    if not data:
                        return
                    if sock is c:
                        if c2s_left is not None:
                            data, over = data[:c2s_left], len(data) > c2s_left
                            c2s_left -= len(data)
                            if faulty:
                                self.c2s += data
                            s.sendall(data)
                            if over or c2s_left == 0:
                                return
                        else:
                            if faulty:
                                self.c2s += data
                            s.sendall(data)
                    else:
                        if silence:
                            continue
                        if self.delay:
                            time.sleep(self.delay)
                        if drop is not None:
                            fbuf += data
                            out = bytearray()
                            while len(fbuf) >= 24 and len(fbuf) >= 24 + fbuf[2] + 256 * fbuf[3]:
                                n = 24 + fbuf[2] + 256 * fbuf[3]
                                if fidx != drop:
                                    out += fbuf[:n]
                                del fbuf[:n]
                                fidx += 1
                            data = bytes(out)
                            if not data:
                                continue
                        if stall is not None and passed + len(data) > stall[0]:
                            head = data[:max(0, stall[0] - passed)]
                            if head:
                                self.s2c += head
                                c.sendall(head)
                            time.sleep(stall[1])
                            data = data[len(head):]
                            passed += len(head)
                            stall = None
                        passed += len(data)
                        if s2c_left is not None:
                            data, over = data[:s2c_left], len(data) > s2c_left
                            s2c_left -= len(data)
                            if faulty:
                                self.s2c += data
                            if data:
                                c.sendall(data)
                            if over or s2c_left == 0:
                                return
                        else:
                            if faulty:
                                self.s2c += data
                            c.sendall(data)
        except OSError:
            pass
        finally:
            for x in (c, s):
                try:
                    x.close()
                except OSError:
                    pass

    def close(self):
        self.done = True
        try:
            self.lsock.close()
        except OSError:
            pass
