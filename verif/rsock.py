"""Real loopback TCP socket around the real cpppo.server.enip.main.enip_srv_tcp -- the counterpart of vsock for everything
BELOW the receive seam: cpppo.server.network.recv itself (select, buffer sizes, end of stream) runs unmodified; it is only
wrapped to log what it returned.  The peer writes the stream in the given chunk sizes, waits (bounded) for the expected
number of reply frames, then closes.  Event log as vsock's (recv n / proc / send / eof / close / conns-left), plus
"prompt": every expected reply frame had arrived while the connection was still open (within `wait' seconds)."""
import socket
import threading
import time

import cpppo
from cpppo.server import network
from cpppo.server.enip import logix
from cpppo.server.enip import main as enip_main

from . import vsock


class LoggedConn(object):
    def __init__(self, sock, log, addr):
        self._sock, self.log, self.addr, self.closed = sock, log, addr, False

    def send(self, data):
        self.log.append({"a": "send", "b": list(bytearray(data)), "conns": vsock.open_connections(self.addr)})
        try:
            return self._sock.send(data)
        except socket.error:
            return len(data)            # the peer is gone: what the server tried to send is what is judged

    def close(self):
        if not self.closed:
            self.closed = True
            self.log.append({"a": "close"})
        self._sock.close()

    def __getattr__(self, name):
        return getattr(self._sock, name)


def frames_in(buf):
    n, at = 0, 0
    while len(buf) - at >= 24:
        ln = 24 + int.from_bytes(buf[at + 2:at + 4], "little")
        if len(buf) - at < ln:
            break
        at += ln
        n += 1
    return n


def session(stream, sizes, expect, wait=3.0, addr=("10.0.0.1", 4000)):
    """stream: octets; sizes: chunk sizes written one after the other; expect: number of reply frames to wait for"""
    log = []
    lst = socket.socket(socket.AF_INET, socket.SOCK_STREAM)
    lst.bind(("127.0.0.1", 0))
    lst.listen(1)
    cli = socket.create_connection(lst.getsockname())
    srv, _ = lst.accept()
    lst.close()
    real_recv = network.recv
    nproc = [0]

    def logged_recv(conn, *a, **kw):
        msg = real_recv(conn, *a, **kw)
        if msg is not None and conn is lconn:
            log.append({"a": "eof"} if len(msg) == 0 else {"a": "recv", "n": len(msg)})
        return msg

    def wrapped(addr_, data, **kwds):
        if data and "request" in data and data.request:
            nproc[0] += 1
            log.append({"a": "proc", "i": nproc[0]})
        return logix.process(addr_, data=data, **kwds)

    lconn = LoggedConn(srv, log, addr)
    control = cpppo.dotdict(latency=0.05, done=False, disable=False)

    def serve():
        try:
            enip_main.connections.pop("%s_%d" % (addr[0].replace(".", "_"), addr[1]), None)
            enip_main.enip_srv_tcp(lconn, addr, name="enip_%d" % addr[1], enip_process=wrapped, server=cpppo.dotdict(control=control))
        except Exception as exc:
            log.append({"a": "exc", "t": type(exc).__name__})
    with vsock._lock:
        network.recv = logged_recv
        try:
            th = threading.Thread(target=serve, daemon=True)
            th.start()
            at = 0
            for n in sizes:
                cli.sendall(bytes(stream[at:at + n]))
                at += n
                if at < len(stream):
                    time.sleep(0.02)
            got = b""
            cli.settimeout(0.1)
            t0 = time.time()
            while frames_in(got) < expect and time.time() - t0 < wait:
                try:
                    more = cli.recv(65536)
                except socket.timeout:
                    continue
                except socket.error:
                    break
                if not more:
                    break
                got += more
            prompt = frames_in(got) >= expect
            took = time.time() - t0
            try:
                cli.shutdown(socket.SHUT_WR)
            except socket.error:
                pass
            th.join(10)
            finished = not th.is_alive()
            control.done = True
            cli.close()
        finally:
            network.recv = real_recv
    log.append({"a": "conns-left", "n": len(vsock.open_connections(addr))})
    return {"ev": log, "prompt": prompt, "finished": finished, "took": round(took, 3), "received": frames_in(got)}
