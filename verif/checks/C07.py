"""C07 -- a Multiple Service Packet is equivalent to its requests issued one by one.

M: in the spec a bundle is *defined* as the left fold of its members (LogixOps!AfterMulti/Chain); TLC checks the
   offset-table law (first offset 2+2N, each next advanced by the previous member's length) on every emitted bundle.
R: TLC emits every bundle of 1..2 (quick) / 1..3 (thorough) members over a basis of requests (reads, fragmented reads,
   writes, fragmented writes, attribute services; valid, beyond-the-end, type-mismatched, unknown tag; two objects),
   encoded by the spec.  Each bundle runs on the real simulator from several memories; the same members run one by
   one on an identically initialised simulator.  TLC (LogixTrace) locates the member replies through the reply's own
   offset table with the spec's decoder and decides three-way: each member reply is an outcome the spec allows in
   the memory left by its predecessors; it equals the reply of the member sent alone; both final memories agree.
"""
import json
import os
import random

from .. import core, logixlib, tlc

LEVEL = "model_checking"


def main(ctx):
    ev = ctx.ev
    wd = core.workdir()
    rng = random.Random(ctx.seed)
    pairs = logixlib.TYPE_PAIRS[:4] if ctx.quick else logixlib.TYPE_PAIRS
    maxm = 2 if ctx.quick else 3
    ev.rule = ("cases: (memory, bundle) -- every bundle of 1..%d members over a basis of ~19 member requests per "
               "configuration (TLC-emitted), from the zero memory and sampled written memories.  Non-trivial: the bundle "
               "has >= 2 members of which at least one writes or fails." % maxm)
    ev.assumptions = ["a member naming an unknown tag is answered 0x05 inside a bundle but aborts a stand-alone request "
                      "with an encapsulation error (C06 'unroutable'); both are failure indications, replies not compared",
                      "execution level: Connection_Manager.request on CIP octets"]
    lines = []
    for (t1, t2) in pairs:
        name = "%s_%s" % (t1, t2)
        budget = 4 if t1 not in ("LINT", "ULINT", "LREAL") else 8
        cat = logixlib.run_emit(ctx, wd, t1, t2, budget, 1, False, name, foreign=True)
        cfgp = os.path.join(wd, "bundle_%s.cfg" % name)
        tlc.write_cfg(cfgp, ["INIT Init", "NEXT EmitNext", "CHECK_DEADLOCK FALSE", "CONSTANTS", ' T1 = "%s"' % t1,
                             ' T2 = "%s"' % t2, " Budget = %d" % budget, " Depth = 0", " Rich = FALSE", " Many = FALSE", " Foreign = TRUE",
                             " MaxMembers = %d" % maxm, " Cfg <- MCfg", " Reqs <- MReqs", ' InitVals = "zero"',
                             " MaxDepth <- Depth"])
        res = tlc.run("MC_Bundle", cfgp, spec_dir=wd, timeout=1500)
        ev.tlc("bundles:" + name, res)
        bundles = [j for j in res.json if j.get("k") == "bundle"]
        if not bundles or ctx.machinery:
            ctx.machinery.append("no bundles emitted for %s" % name)
            return
        mems = [cat.mems[0]] + rng.sample(cat.mems[1:], min(len(cat.mems) - 1, 3 if ctx.quick else 10))
        jobs = []
        for m in mems:
            bs = bundles
            if len(bs) > 2500:
                bs = [b for b in bundles if len(b["mb"]) < 3] + rng.sample([b for b in bundles if len(b["mb"]) == 3], 2000)
            for k in range(0, len(bs), 60):
                jobs.append((cat.cfg, m["mem"], bs[k:k + 60]))
        lines += core.pmap(logixlib.exec_bundles, jobs, chunksize=1)
    for ln in lines:
        for e in ln["ev"]:
            ms = e["r"]["ms"]
            nt = len(ms) >= 2 and any(m["svc"] in ("write", "writef", "sas") for m in ms)
            ev.case(key=(json.dumps(ln["cfg"]["tags"][0]["type"]), json.dumps(ln["from"]), json.dumps(ms)), nontrivial=nt)
    e = lines[0]["ev"][len(lines[0]["ev"]) // 2]
    ev.sample({"from": lines[0]["from"], "members": e["r"]["ms"], "bundle_request": e["b"], "bundle_reply": e["rpy"],
               "single_replies": e["singles"]})
    bad = logixlib.validate(ctx, lines, "C07", chunk_events=20000)
    logixlib.report(ctx, bad, "C07")
    ev.exhaustive = True


def replay(ctx, path):
    rec = json.load(open(path))
    tr = rec["trace"]
    from .. import sim
    dev = sim.Device(tr["cfg"])
    e = tr["ev"][-1]
    dev.set_mem(tr["from"])
    rpy = dev.cip(e["b"])
    print("bundle request", e["b"], "\n recorded reply", e["rpy"], "\n now           ", rpy)
    now = dict(e, rpy=rpy, mem=dev.get_mem())
    bad = logixlib.validate(ctx, [dict(tr, ev=[now])], "replay")
    print("verdict:", "rejected (%s)" % bad[0][2] if bad else "accepted")
    return 1 if bad else 0
