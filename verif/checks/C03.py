"""C03 -- tags behave as typed arrays: a read returns the most recently written values.

M: TLC explores Logix (spec/Logix.tla) on bounded configurations for every request of the catalogue to depth 2-3 and
   checks TypeOK, FrameOK (only addressed elements of the addressed tag change, only on a successful write),
   ReadsMemory (a successful read returns what memory holds), RefusedNoChange, Readable.
R: TLC emits the request catalogue (encoded by the spec's own CIP encoder) and every memory reachable by writes;
   each (memory, request) pair is executed on a fresh real simulator; reply octets and resulting tag contents are
   handed back to TLC, which accepts the step iff it is an outcome Logix allows (LogixTrace).
V: random request histories (symbolic and class/instance/attribute addressing mixed) on one device, validated the
   same way with the memory carried along by the spec.
"""
import json
import random

from .. import core, logixlib

LEVEL = "model_checking"


def nontrivial(r):
    return r["svc"] in ("write", "writef", "sas") or (r["svc"] in ("read", "readf", "gas") and r["n"] > 0)


def in_bounds(r, cfg):
    """C03 is about requests the device serves: known tag, element range inside the tag, request type = tag type.
    (Everything else -- out-of-range, cross-type, unknown -- is C05's territory and is checked there.)"""
    if not r["tag"]:
        return False
    tg = cfg["tags"][r["tag"] - 1]
    if r["svc"] in ("gas", "sas"):
        return True
    if r["typ"] != tg["type"]:
        return False
    i0 = max(r["idx"], 0)
    return i0 + r["n"] <= tg["len"]


def main(ctx, pairs=None, budget_list=None, hist=None, selector=in_bounds, label="C03", deep_mems=160):
    ev = ctx.ev
    quick = ctx.quick
    # quick: the first five pairs (C03 itself also the pair holding a tag of the widest unsigned type); thorough: all
    pairs = pairs or ((logixlib.TYPE_PAIRS[:5] + ([("LINT", "ULINT")] if label == "C03" else [])) if quick else logixlib.TYPE_PAIRS)
    wd = core.workdir()
    rng = random.Random(ctx.seed)
    ev.rule = ("cases: (memory, request) pairs -- memories = every state reachable by <= 1 (quick) / 2 (thorough) "
               "writes of the catalogue, requests = the whole catalogue emitted by TLC for the configuration "
               "(all services, indices -1..len, counts 0..len+1, offsets, request types, value rotations, symbolic "
               "and numeric addressing); plus random histories of catalogue requests.  Non-trivial: a write, or a "
               "read of at least one element; distinct by (configuration, memory, request).")
    ev.assumptions = [
        "execution level: Connection_Manager.request on the CIP request octets (routing, parsing, processing, reply "
        "production of the real code); encapsulation/CPF layers are covered by C01/C02/C06",
        "float values are the IEEE bit patterns of a small domain (no NaN); integer-to-float conversion only for -1..2",
        "PERMISSIVE points of Logix.tla (zero counts, mid-element offsets, cross-type writes of representable values)",
    ]
    configs = [(t1, t2, False) for (t1, t2) in pairs] + [("INT", "REAL", True)]
    for (t1, t2, many) in configs:
        name = "%s_%s%s" % (t1, t2, "_many" if many else "")
        budget = 4 if t1 not in ("LINT", "ULINT", "LREAL") else 8
        logixlib.run_model(ctx, wd, t1, t2, budget, 2 if quick else 3, False, name, many=many)
        cat = logixlib.run_emit(ctx, wd, t1, t2, budget, 1 if quick else 2, not quick, name, many=many)
        if ctx.machinery:
            return
        reqs = cat.reqs if selector is None else [q for q in cat.reqs if selector(q["r"], cat.cfg)]
        mems = cat.mems
        if quick and len(mems) > 40:
            mems = [mems[0]] + rng.sample(mems[1:], 39)
        elif not quick and len(mems) > deep_mems:
            mems = [mems[0]] + rng.sample(mems[1:], deep_mems - 1)
        def settle(lines):
            """validate and report a batch at once (the thorough tier runs millions of steps: nothing is kept)"""
            for ln in lines:
                for e in ln["ev"]:
                    r = e["r"]
                    ev.case(key=(name, json.dumps(ln["from"]) if ln["fan"] else "h%d" % id(ln), json.dumps(r)), nontrivial=nontrivial(r))
            if lines and not ev.samples:
                ev.sample({"cfg": lines[0]["cfg"], "from": lines[0]["from"], "event": lines[0]["ev"][len(lines[0]["ev"]) // 2]})
                ev.sample({"history": [{"r": e["r"], "rpy": e["rpy"]} for e in lines[-1]["ev"][:4]]})
            bad = logixlib.validate(ctx, lines, label + ":" + name)
            logixlib.report(ctx, bad, label)
        # random histories
        nh = hist if hist is not None else (60 if quick else 600)
        hjobs = []
        for _ in range(nh):
            seq = [rng.choice(reqs) for _ in range(14)]
            hjobs.append((cat.cfg, cat.mems[0]["mem"], seq))
        hlines = core.pmap(logixlib.exec_history, hjobs, chunksize=4)
        for at in range(0, len(mems), 40):
            jobs = []
            for m in mems[at:at + 40]:
                rs = reqs
                if quick and len(rs) > 700:
                    rs = rng.sample(rs, 700)
                for k in range(0, len(rs), 100):
                    jobs.append((cat.cfg, m["mem"], rs[k:k + 100]))
            settle(core.pmap(logixlib.exec_fan, jobs, chunksize=1) + hlines)
            hlines = []
            if ctx.nviol > 50:
                break
    ev.extra["type_pairs"] = ["%s/%s" % p for p in pairs]


def replay(ctx, path):
    rec = json.load(open(path))
    tr = rec["trace"]
    reqs = []
    # re-encode requests with the spec (one-shot TLC run is overkill here): reuse recorded octets if present
    print("replaying recorded trace (%d events) on the current tree" % len(tr["ev"]))
    from .. import sim
    dev = sim.Device(tr["cfg"])
    dev.set_mem(tr["from"])
    evs = []
    for e in tr["ev"]:
        if tr["fan"]:
            dev.set_mem(tr["from"])
        b = e.get("b")
        if b is None:
            print("trace has no request octets; cannot replay")
            return 2
        rpy = dev.cip(b)
        evs.append(dict(e, rpy=rpy, mem=dev.get_mem()))
        print(" request", json.dumps(e["r"]), "\n   recorded reply", e["rpy"], "\n   now", rpy)
    bad = logixlib.validate(ctx, [dict(tr, ev=evs)], "replay")
    print("verdict:", "rejected at %d (%s)" % (bad[0][1], bad[0][2]) if bad else "accepted")
    return 1 if bad else 0
