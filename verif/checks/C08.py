"""C08 -- malformed or hostile input cannot hang, crash or corrupt the simulator.

M: spec/Hostile.tla lays valid frames out as named parts (every length / count / offset / size field of every nesting level:
   encapsulation length, CPF count and item lengths, Unconnected Send message length and route path size, EPATH size,
   symbolic length, element count, bundle count and offsets, Forward Open fields) and enumerates mutation plans
   part x operator {zero, +1, -1, max, drop, duplicate, bit flip, truncate after, truncate inside, insert}.
R: every plan's octets are sent to the real server over the virtual socket at three session points (alone; after a valid
   Register; followed in the same chunk by a valid read), plus seeded random octet strings and random splices of
   valid frames, each under a watchdog.
   "Reframed" plans mutate the CIP message itself (service, path, counts, every data element of a Write Tag, a Set Attribute
   Single, a bundle, a Forward Open) and frame it again with consistent lengths, so the mutation reaches the request handlers.
T: request routing ([UCMM] Route) to a second simulator process over a relay that delays every reply chunk by 0.3 s: a request
   whose Unconnected Send time-out (10 ms) is shorter than the link's latency fails; the requests of other sessions, before
   and after it, must be answered with THEIR data from the device they address (RouteTrace).
U: the datagram service (spec/Udp.tla, model-checked in MC_Udp: independence of datagrams, one reply per well-formed request):
   the same hostile octets, every truncation and an oversized copy of every well-formed frame, and random mixes are fed as
   datagrams between well-formed ones from several peers to the real enip_srv_udp (scripted recvfrom); TLC (UdpTrace) decides
   that every well-formed datagram is answered as if it had come alone, replies go to the sender, tags keep their shape and
   change only by a write the model explains.
V: TLC (HostileTrace) checks the contract on every session: it finished in time, every reply is a well-framed frame,
   nothing happens after the close, the connection is closed at the end, a tag changed only if a write was acknowledged
   with success, and a new session (register, list services, read back) is served correctly afterwards.
"""
import json
import os
import random
import tempfile
import threading
import time

from .. import core, tlc

LEVEL = "fault_enumeration"


def exec_hostile(job):
    from .. import sim, vsock
    import struct
    cfg, chunks, label, wexp = job[:4]
    strict = len(job) > 4 and bool(job[4])       # the input holds no write request at all: nothing may change
    dev = sim.Device(cfg)
    mem0 = [[[1, 0], [2, 0], [3, 0]], [[4, 0, 0, 0]]]
    dev.set_mem(mem0)
    sim.reset_random(1)
    result = {}

    def target():
        result["ev"] = vsock.session([bytes(bytearray(c)) for c in chunks], addr=("10.0.0.9", 4009))
    th = threading.Thread(target=target, daemon=True)
    t0 = time.time()
    th.start()
    th.join(20)
    finished = not th.is_alive()
    wall = time.time() - t0
    ev = result.get("ev", [{"a": "recv", "n": 0}])
    after = dev.get_mem()
    others = False
    if finished:
        reg = struct.pack("<HHII", 0x65, 4, 0, 0) + b"probe..." + struct.pack("<I", 0) + b"\x01\x00\x00\x00"
        lsv = struct.pack("<HHII", 0x04, 0, 0, 0) + b"probe..." + struct.pack("<I", 0)
        ev2 = vsock.session([reg + lsv], addr=("10.0.0.2", 4001))
        others = [e["a"] for e in ev2] == ["recv", "proc", "send", "proc", "send", "eof", "close", "conns-left"] and dev.get_mem() == after
    nbytes = sum(len(c) for c in chunks)
    return {"ev": ev, "before": mem0, "after": after, "others": others, "finished": finished and wall < 2.0 + 0.01 * nbytes,
            "wexp": wexp, "strict": strict,
            "label": label, "chunks": [list(bytearray(c)) for c in chunks], "wall": round(wall, 3)}


def exec_udp(job):
    """job = (cfg, mem0, grams [{"kind", "f"?, "peer", "b": octets}], label): the real UDP service loop over the datagrams"""
    from .. import sim, usock
    import sys
    cfg, mem0, grams, label = job
    sys.unraisablehook = lambda u: None          # the repo's generators raise while being closed after a failed parse: stderr noise only
    dev = sim.Device(cfg)
    dev.set_mem(mem0)
    sim.reset_random(1)
    result = {}

    def target():
        result["ev"] = usock.run([(bytes(bytearray(g["b"])), g["peer"]) for g in grams], dev.get_mem)
    th = threading.Thread(target=target, daemon=True)
    t0 = time.time()
    th.start()
    th.join(20)
    wall = time.time() - t0
    finished = not th.is_alive()
    evs = result.get("ev", [{"a": "dgram", "mem": mem0}])
    after = dev.get_mem()
    shape = [[len(e) for e in t] for t in after] == [[len(e) for e in t] for t in mem0]
    nbytes = sum(len(g["b"]) for g in grams)
    sc = {"cfg": cfg, "pers": {"k": "any"}, "mem0": mem0, "grams": [{k: v for k, v in g.items() if k != "b" or g["kind"] == "bad"} for g in grams]}
    return {"sc": sc, "ev": evs, "finished": finished and wall < 2.0 + 0.01 * nbytes, "shape": shape, "label": label,
            "octets": [g["b"] for g in grams], "wall": round(wall, 3)}


def udp_part(ctx, wd, rng, plans, valid, wmsgs):
    """the datagram service: hostile datagrams between well-formed ones, several peers (Udp / UdpTrace)"""
    from .. import serverlib
    ev = ctx.ev
    cfgp = os.path.join(wd, "udp_mc.cfg")
    tlc.write_cfg(cfgp, ["SPECIFICATION MSpec", "INVARIANT Independence", "INVARIANT OneReplyEach", "INVARIANT NoAck", "CHECK_DEADLOCK FALSE",
                         "CONSTANTS", " MaxGrams = %d" % (3 if ctx.quick else 4)])
    res = tlc.run("MC_Udp", cfgp, spec_dir=wd, timeout=1700)
    ev.tlc("udp-model", res)
    if res.violated:
        ctx.spec_violation(res, "udp-model")
    scs = serverlib.emit_scenarios(ctx, wd, 1, "any", "all", "udpgood")
    if not scs:
        return
    cfg, mem0 = scs[0]["sc"]["cfg"], [[[1, 0], [2, 0], [3, 0]], [[4, 0, 0, 0]]]
    goods = [{"kind": "good", "f": s["sc"]["frames"][0], "b": s["fb"][0]} for s in scs]

    def good(i, peer):
        return dict(goods[i % len(goods)], peer=peer)
    jobs = []
    n = 0
    for p in plans:
        n += 1
        bad = {"kind": "bad", "peer": 1 + n % 2, "b": p["b"], "intact": bool(p["intact"]), "wreq": p["wreq"]}
        jobs.append((cfg, mem0, [good(n, 1), bad, good(n + 3, 1), good(n + 5, 2)], "udp/%s/%s/%s" % (p["base"], p["part"], p["op"])))
    for i, g in enumerate(goods):                       # every truncation and an oversized copy of every well-formed frame
        cuts = range(len(g["b"])) if not ctx.quick else sorted(set([0, 1, 23, 24, 25, len(g["b"]) - 1] + [rng.randrange(len(g["b"])) for _ in range(4)]))
        for k in cuts:
            if k < len(g["b"]):
                jobs.append((cfg, mem0, [{"kind": "bad", "peer": 1, "b": g["b"][:k], "intact": False}, good(i, 1 + k % 2), good(i + 4, 2)], "udp/truncated/%d/%d" % (i, k)))
        jobs.append((cfg, mem0, [{"kind": "bad", "peer": 2, "b": g["b"] + g["b"][:7], "intact": False}, good(i, 2), good(i + 1, 1)], "udp/oversized/%d" % i))
    for k in range(150 if ctx.quick else 3000):        # random mixes
        grams = []
        for _ in range(rng.randint(2, 6)):
            if rng.random() < 0.5:
                grams.append(good(rng.randrange(len(goods)), rng.randint(1, 3)))
            else:
                kind = rng.randrange(3)
                if kind == 0:
                    b = [rng.randrange(256) for _ in range(rng.choice([0, 1, 7, 23, 24, 25, 40, 100, 600]))]
                elif kind == 1:
                    b = list(valid[rng.choice(sorted(valid))])
                    for _ in range(rng.choice([1, 2, 5])):
                        b[rng.randrange(len(b))] ^= 1 << rng.randrange(8)
                else:
                    a, c = rng.choice(sorted(valid)), rng.choice(sorted(valid))
                    b = valid[a][:rng.randrange(len(valid[a]))] + valid[c][rng.randrange(len(valid[c])):]
                wx, wr = intact_of(wmsgs, b)
                grams.append(dict({"kind": "bad", "peer": rng.randint(1, 3), "b": b, "intact": bool(wx)}, **({"wreq": wr} if wx else {})))
        grams.append(good(k, 1))
        jobs.append((cfg, mem0, grams, "udp/random/%d" % k))
    lines = core.pmap(exec_udp, jobs, chunksize=8)
    for ln in lines:
        ev.case(key="udp" + json.dumps(ln["octets"]), nontrivial=any(g["kind"] == "bad" for g in ln["sc"]["grams"][:-1]))
    ev.sample({"label": lines[3]["label"], "datagrams": [dict(kind=g["kind"], peer=g["peer"], octets=len(b)) for g, b in zip(lines[3]["sc"]["grams"], lines[3]["octets"])],
               "events": [{k: (v if k != "b" else v[:30]) for k, v in e.items()} for e in lines[3]["ev"]]})
    fd, path = tempfile.mkstemp(prefix="udp_", suffix=".ndjson")
    with os.fdopen(fd, "w") as f:
        for ln in lines:
            f.write(json.dumps({k: ln[k] for k in ("sc", "ev", "finished", "shape")}, separators=(",", ":")) + "\n")
    try:
        r3 = tlc.run("UdpTrace", "UdpTrace.cfg", env={"TRACE_FILE": path}, timeout=2400)
    finally:
        os.unlink(path)
    ev.tlc("udp-contract", r3)
    want = sum(len(ln["ev"]) + 1 for ln in lines)
    rejected = {}
    for j in r3.json:
        if "tid" in j:
            rejected.setdefault(j["tid"], j)
    if not rejected and r3.distinct != want:
        ctx.machinery.append("UdpTrace visited %d states, expected %d" % (r3.distinct, want))
    classes = {}
    for tid, j in rejected.items():
        classes.setdefault(j["why"], []).append((lines[tid - 1], j["at"]))
    for why, lst in sorted(classes.items()):
        print("  rejected-class udp %s x%d e.g. %s" % (why, len(lst), lst[0][0]["label"]))
        for ln, at in lst:
            ctx.violation("udp_%s" % why, {"why": why, "udp": True, "label": ln["label"], "octets": ln["octets"], "grams": ln["sc"]["grams"], "events": ln["ev"], "at": at},
                          what="datagram service %s: %s at event %d; events %s" % (ln["label"], why, at, json.dumps([{k: (v if k not in ("b", "mem") else len(v)) for k, v in e.items()} for e in ln["ev"]])[:400]))
    ev.extra.update({"udp_runs": len(lines), "udp_max_wall_s": max(ln["wall"] for ln in lines)})


def exec_routing(job):
    """request routing to a second device over a slow link: a request whose time-out is shorter than the link's latency must
    not disturb the requests of other sessions (RouteTrace)"""
    import socket
    from .. import live, sim
    cfg, steps, latency = job
    texts = []
    for tg in cfg["tags"]:
        name = bytes(bytearray(tg["name"])).decode("ascii")
        texts.append("%s=%s%s" % (name, tg["type"], "" if tg["scalar"] else "[%d]" % tg["len"]))
    remote = relay = srv = None
    socks, ev, exc = {}, [], ""
    try:
        remote = live.RemoteSim(texts)
        relay = live.Relay(remote.address, delay=latency, every=True)
        srv = live.LiveServer(cfg, pers={"k": "routing", "route": {"1/2": "%s:%d" % relay.address}})
        mem1 = srv.dev.get_mem()
        for st in steps:
            if st.get("sleep"):
                time.sleep(st["sleep"])
                continue
            sid = st["s"]
            if sid not in socks:
                socks[sid] = socket.create_connection(srv.address, timeout=5)
            sk = socks[sid]
            try:
                sk.sendall(bytes(bytearray(st["fb"])))
                sk.settimeout(st.get("wait", 4.0))
                buf = b""
                while len(buf) < 24 or len(buf) < 24 + buf[2] + 256 * buf[3]:
                    d = sk.recv(4096)
                    if not d:
                        break
                    buf += d
            except (socket.timeout, OSError):
                buf = b""
            whole = len(buf) >= 24 and len(buf) == 24 + buf[2] + 256 * buf[3]
            ev.append({"f": st["f"], "b": list(buf) if whole else [], "hostile": bool(st.get("hostile"))})
        end1 = srv.dev.get_mem()
    except Exception as e:
        exc = repr(e)
        mem1 = end1 = []
    finally:
        for sk in socks.values():
            try:
                sk.close()
            except OSError:
                pass
        if srv:
            srv.stop()
        if relay:
            relay.close()
        if remote:
            remote.stop()
    zero = [[[0] * {"INT": 2, "DINT": 4}[tg["type"]] for _ in range(tg["len"])] for tg in cfg["tags"]]
    return {"cfg1": cfg, "cfg2": cfg, "mem1": mem1, "mem2": zero, "via": {"k": "port", "p": 1, "l": 2}, "ev": ev, "end1": end1, "exc": exc,
            "steps": [{k: v for k, v in st.items() if k != "fb"} for st in steps]}


def routing_part(ctx, wd, rng):
    from .. import serverlib
    ev = ctx.ev
    scs = serverlib.emit_scenarios(ctx, wd, 1, "any", "routing", "routing")
    if not scs:
        return
    fr = [{"f": s["sc"]["frames"][0], "fb": s["fb"][0]} for s in scs]
    cfg = scs[0]["sc"]["cfg"]
    reg = [x for x in fr if x["f"]["kind"] == "register"][0]
    hostile = [x for x in fr if "uticks" in x["f"]]
    routed = [x for x in fr if x["f"]["kind"] == "rr" and x["f"]["route"][0]["l"] == 2 and "uticks" not in x["f"]]
    local = [x for x in fr if x["f"]["kind"] == "rr" and x["f"]["route"][0]["l"] == 0]
    wr = [x for x in routed if x["f"]["req"]["svc"] == "write"]
    rd = [x for x in routed if x["f"]["req"]["svc"] == "read"]
    jobs = []
    for n in range(4 if ctx.quick else 24):
        h = hostile[n % len(hostile)]
        steps = [dict(reg, s="B"), dict(rng.choice(wr), s="B"), dict(rng.choice(local), s="B"), dict(rng.choice(rd), s="B"),
                 dict(reg, s="A"), dict(h, s="A", hostile=True, wait=1.2), {"sleep": 0.7}]
        # the victim's next routed request must be answered with ITS data: pick one that differs from the hostile one
        others = [x for x in rd if x["f"]["req"] != h["f"]["req"]]
        steps += [dict(rng.choice(others), s="B"), dict(rng.choice(rd), s="B"), dict(rng.choice(local), s="B"), dict(rng.choice(rd), s="C0")]
        steps.insert(len(steps) - 1, dict(reg, s="C0"))
        jobs.append((cfg, steps, 0.3))
    lines = core.pmap(exec_routing, jobs, chunksize=1, procs=min(8, len(jobs)))
    for ln in lines:
        ev.case(key="routing" + json.dumps(ln["steps"]), nontrivial=True)
        if ln["exc"]:
            ctx.machinery.append("routing scenario could not run: %s" % ln["exc"][:200])
    ev.sample({"routing_steps": [(st.get("s"), st["f"]["kind"], st["f"]["req"]["svc"] if "f" in st else "", bool(st.get("hostile"))) if "f" in st else "sleep" for st in lines[0]["steps"]],
               "replies": [len(e["b"]) for e in lines[0]["ev"]]})
    fd, path = tempfile.mkstemp(prefix="route_", suffix=".ndjson")
    with os.fdopen(fd, "w") as f:
        for ln in lines:
            f.write(json.dumps({k: ln[k] for k in ("cfg1", "cfg2", "mem1", "mem2", "via", "ev", "end1")}, separators=(",", ":")) + "\n")
    try:
        r3 = tlc.run("RouteTrace", "RouteTrace.cfg", env={"TRACE_FILE": path}, timeout=1200)
    finally:
        os.unlink(path)
    ev.tlc("routing", r3)
    rejected = {}
    for j in r3.json:
        if "tid" in j:
            rejected.setdefault(j["tid"], j)
    if not rejected and r3.distinct != sum(len(ln["ev"]) + 1 for ln in lines):
        ctx.machinery.append("RouteTrace visited %d states, expected %d" % (r3.distinct, sum(len(ln["ev"]) + 1 for ln in lines)))
    for tid, j in rejected.items():
        ln = lines[tid - 1]
        e = ln["ev"][min(j["at"], len(ln["ev"])) - 1]
        ctx.violation("routing_%s" % j["why"], {"routing": True, "why": j["why"], "at": j["at"], "steps": ln["steps"], "ev": ln["ev"]},
                      what="request routing over a slow link: %s at step %d: request %s answered %s" % (
                          j["why"], j["at"], json.dumps(e["f"]["req"])[:160], e["b"][40:70]))
    ev.extra["routing_scenarios"] = len(lines)


def contains(big, small):
    big, small = bytes(bytearray(big)), bytes(bytearray(small))
    return small in big


def intact_of(wmsgs, octets):
    """the spec's write messages that the octets still contain completely -> (their expected memories, the first one's request)"""
    hit = [w for w in wmsgs if contains(octets, w["b"])]
    return [w["wexp"] for w in hit], (hit[0]["wreq"] if hit else None)


def main(ctx):
    ev = ctx.ev
    wd = core.workdir()
    rng = random.Random(ctx.seed)
    cfgp = os.path.join(wd, "hostile.cfg")
    tlc.write_cfg(cfgp, ["INIT HInit", "NEXT HNext", "CONSTRAINT HEmit", "CHECK_DEADLOCK FALSE"])
    res = tlc.run("Hostile", cfgp, spec_dir=wd, timeout=1700, workers=8)
    ev.tlc("plans", res)
    plans = [j for j in res.json if j.get("k") == "plan"]
    cfgs = [j for j in res.json if j.get("k") == "cfg"]
    if len(plans) != res.distinct or not cfgs:
        ctx.machinery.append("plan emission incomplete %d/%d" % (len(plans), res.distinct))
        return
    cfg, register, read, wmsgs = cfgs[0]["cfg"], cfgs[0]["register"], cfgs[0]["read"], cfgs[0]["wmsgs"]
    ev.rule = ("cases: mutation plans (6 base frames x up to 37 named parts x 10 operators, on the frame, on the re-framed message and on one member of a re-framed bundle) x 3 session points, "
               "the same plans / truncations / oversized copies / random mixes as datagrams between well-formed datagrams (UDP service), plus seeded random "
               "octet strings (0..600 octets) and random splices / bit flips of valid frames.  Non-trivial: the mutated octets "
               "differ from the valid frame in a length, count, offset, size or type field (every plan), or random input "
               "longer than a header.")
    ev.assumptions = ["UDP: scripted recvfrom around the real enip_srv_udp; peers are distinguished by address only",
                      "virtual socket around the real enip_srv_tcp; the listener (network.server_main) swallowing a session's exception is as in the code",
                      "time bound: 2 s + 10 ms per input octet per session (a session normally takes < 20 ms)",
                      "a tag may change only if a success reply to a write-class service (Write Tag [Fragmented], Set Attribute Single, bundle) was sent"]
    jobs = []
    for p in plans:
        lab = "%s/%s/%s" % (p["base"], p["part"], p["op"])
        jobs.append((cfg, [p["b"]], lab + "/alone", [p["wexp"]] if p["intact"] else [], p.get("strict")))
        jobs.append((cfg, [register, p["b"]], lab + "/after-register", [p["wexp"]] if p["intact"] else [], p.get("strict")))
        jobs.append((cfg, [list(p["b"]) + list(read)], lab + "/then-read", [p["wexp"]] if p["intact"] else [], p.get("strict")))
    valid = {p["base"]: p["valid"] for p in plans}
    nrand = 400 if ctx.quick else 6000
    for n in range(nrand):
        kind = n % 4
        if kind == 0:
            b = [rng.randrange(256) for _ in range(rng.choice([0, 1, 7, 23, 24, 25, 40, 100, 600]))]
        elif kind == 1:      # valid header, random payload of the declared length (or not)
            ln = rng.choice([0, 1, 4, 16, 50, 200])
            b = list(bytearray(__import__("struct").pack("<HHII", rng.choice([0x65, 0x66, 0x6F, 0x70, 0x04, 0x63, 0x64, 0x01, 0x99]), ln + rng.choice([0, 0, 1, -1 if ln else 0]), 7, 0))) \
                + [0] * 12 + [rng.randrange(256) for _ in range(ln)]
        elif kind == 2:      # splice of two valid frames at random offsets
            a, c = rng.choice(sorted(valid)), rng.choice(sorted(valid))
            b = valid[a][:rng.randrange(len(valid[a]))] + valid[c][rng.randrange(len(valid[c])):]
        else:                # a few random bit flips in a valid frame
            b = list(valid[rng.choice(sorted(valid))])
            for _ in range(rng.choice([1, 2, 5])):
                i = rng.randrange(len(b))
                b[i] ^= 1 << rng.randrange(8)
        chunks = [b] if rng.random() < 0.5 else [b[:len(b) // 2], b[len(b) // 2:]]
        jobs.append((cfg, [register] + chunks if rng.random() < 0.5 else chunks, "random/%d/%d" % (kind, n), intact_of(wmsgs, b)[0]))
    lines = core.pmap(exec_hostile, jobs, chunksize=8)
    for ln in lines:
        ev.case(key=json.dumps(ln["chunks"]), nontrivial=not ln["label"].startswith("random/0") or sum(len(c) for c in ln["chunks"]) > 24)
    ev.sample({"label": lines[7]["label"], "events": [{k: (v if k != "b" else v[:30]) for k, v in e.items()} for e in lines[7]["ev"]]})
    ev.sample({"label": lines[-1]["label"], "octets": lines[-1]["chunks"][-1][:60], "events": [{k: (v if k != "b" else v[:30]) for k, v in e.items()} for e in lines[-1]["ev"]]})
    fd, path = tempfile.mkstemp(prefix="hostile_", suffix=".ndjson")
    with os.fdopen(fd, "w") as f:
        for ln in lines:
            f.write(json.dumps(dict({k: ln[k] for k in ("ev", "before", "after", "others", "finished", "wexp", "strict")}, octets=[o for c in ln["chunks"] for o in c]), separators=(",", ":")) + "\n")
    try:
        r3 = tlc.run("HostileTrace", "HostileTrace.cfg", env={"TRACE_FILE": path}, timeout=2400)
    finally:
        os.unlink(path)
    ev.tlc("contract", r3)
    classes = {}
    for j in r3.json:
        if "tid" in j:
            ln = lines[j["tid"] - 1]
            classes.setdefault(j["why"], []).append(ln)
    for why, lst in sorted(classes.items()):
        print("  rejected-class %s x%d e.g. %s" % (why, len(lst), lst[0]["label"]))
        for ln in lst:
            ctx.violation("hostile_%s" % why, {"why": why, "label": ln["label"], "chunks": ln["chunks"], "events": ln["ev"], "after": ln["after"], "wall": ln["wall"]},
                          what="hostile input %s: %s; events %s" % (ln["label"], why, json.dumps([{k: (v if k != "b" else len(v)) for k, v in e.items()} for e in ln["ev"]][-6:])))
    ev.extra.update({"plans": len(plans), "sessions": len(lines), "random_inputs": nrand, "max_wall_s": max(ln["wall"] for ln in lines)})
    udp_part(ctx, wd, rng, plans, valid, wmsgs)
    routing_part(ctx, wd, rng)


def replay(ctx, path):
    rec = json.load(open(path))
    if rec.get("routing"):
        print(json.dumps({"why": rec["why"], "at": rec["at"], "steps": rec["steps"]})[:1500])
        return 1
    if rec.get("udp"):
        print(json.dumps({"label": rec["label"], "why": rec["why"], "at": rec["at"]}))
        return 1
    cfg = {"budget": 488, "tags": [{"name": [65], "type": "INT", "len": 3, "scalar": False, "cia": [2, 1, 1]},
                                   {"name": [66, 66], "type": "DINT", "len": 1, "scalar": True, "cia": [2, 1, 2]}]}
    ln = exec_hostile((cfg, rec["chunks"], rec["label"], []))
    print(json.dumps({k: ln[k] for k in ("ev", "after", "others", "finished", "wall")})[:1500])
    return 1
