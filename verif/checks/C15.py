"""C15 -- route-path filtering follows the configured device personality.

M: Server!RouteAccepted is the decision table of the statement (no configuration: any route path; simple device: only
   requests without a route path; configured path: no route path or exactly that one); TLC explores MC_Server with the
   route frame set under each personality.
R: the full matrix personality {none, simple, 1/0, 2/3, 1/0/2/3, 2/1.2.3.4, 1/5} x request route path {absent (no
   Unconnected Send wrapper), empty, 1/0, 2/3, 1/1, 2/0, two-segment, address link, extended port} x service {write,
   read, Get Attribute Single, bundle}, each as a one-frame session (and two-frame sessions for the configured
   personalities) on the real server configured the way main() configures it (UCMM subclass with route_path).
V: TLC (ServerTrace): accepted => the normal SendRRData reply with the tag model's values; refused => one frame with
   non-zero encapsulation status, session ends, memory unchanged and NO attribute access (counting Attribute class).
   Textual route paths emitted by the spec ('p/l', chained 'p/l/p/l', JSON lists of dicts / strings, address links)
   are parsed by device.parse_route_path and must denote the segments they spell.
"""
import json
import random

from .. import core, serverlib

LEVEL = "model_checking"
PERS = ["any", "simple", "p10", "p23", "p10_23", "pa", "p15"]


def _check_text(job):
    from .. import sim
    from cpppo.server.enip import device
    j = job
    want = sim.route_py(j["segs"])
    try:
        got = device.parse_route_path(j["text"])
    except Exception as exc:
        got = "EXC %r" % exc
    return got == want, got, want


def main(ctx):
    ev = ctx.ev
    wd = core.workdir()
    rng = random.Random(ctx.seed)
    ev.rule = ("cases: (personality, request route path, service): the full 7 x 12 x 4 matrix as one-frame sessions, plus "
               "two-frame sessions per personality, plus route-path texts.  Non-trivial: the request carries a route path "
               "(wrapper present and non-empty) -- the filter has to decide.")
    ev.assumptions = ["an Unconnected Send wrapper with an empty route path counts as 'no route path' (statement: 'carries no route path')",
                      "refusal = one frame with non-zero encapsulation status and end of session, as the code answers unroutable requests"]
    jobs, texts = [], []
    for p in PERS:
        serverlib.run_model(ctx, wd, 1, p, "routes", "routes_" + p)
        scs = serverlib.emit_scenarios(ctx, wd, 1 if ctx.quick else 2, p, "routes", "routes_" + p)
        if ctx.machinery:
            return
        one = [s for s in scs if len(s["sc"]["frames"]) == 1]
        two = [s for s in scs if len(s["sc"]["frames"]) == 2]
        for s in one:
            jobs.append((s, [s["ends"][-1]]))
            if p == "simple":           # the same personality configured by the other false values: an empty route path list, 0
                for form in ("empty", "zero"):
                    jobs.append((dict(s, sc=dict(s["sc"], pers=dict(s["sc"]["pers"], form=form))), [s["ends"][-1]]))
        for s in (rng.sample(two, 150) if two else []):
            jobs.append((s, [s["ends"][-1]]))
    # route texts: emitted once (any personality run prints them)
    import os
    from .. import tlc
    cfgp = os.path.join(wd, "rtext.cfg")
    tlc.write_cfg(cfgp, ["INIT EmitInit", "NEXT EmitNext", "CHECK_DEADLOCK FALSE", "CONSTANTS", " MaxFrames = 1",
                         ' Pers = "any"', ' Frames = "routes"'])
    res = tlc.run("MC_Server", cfgp, spec_dir=wd, timeout=600)
    texts = [j for j in res.json if j.get("k") == "rtext"]
    if not texts:
        ctx.machinery.append("no route texts emitted")
        return
    for j in texts:
        ok, got, want = _check_text(j)
        ev.case(key=("text", j["text"]), nontrivial=True)
        if not ok:
            ctx.violation("route_text", {"text": j["text"], "segs": j["segs"], "got": repr(got)},
                          what="route path text %r parsed to %r, spells %r" % (j["text"], got, want))
    ev.sample({"route_text": texts[len(texts) // 2]["text"], "segments": texts[len(texts) // 2]["segs"]})
    lines = core.pmap(serverlib.exec_session, jobs, chunksize=8)
    for (s, sz), ln in zip(jobs, lines):
        f = s["sc"]["frames"][0]
        ev.case(key=(s["sc"]["pers"]["k"], s["sc"]["pers"].get("form"), json.dumps(s["sc"]["pers"].get("segs")), json.dumps(s["fb"])),
                nontrivial=f["wrap"] == "ucsend" and len(f["route"]) > 0)
    ln = lines[len(lines) // 3]
    ev.sample({"personality": ln["sc"]["pers"], "route": ln["sc"]["frames"][0]["route"], "wrap": ln["sc"]["frames"][0]["wrap"],
               "service": ln["sc"]["frames"][0]["req"]["svc"],
               "events": [{k: (v if k != "b" else v[:30]) for k, v in e.items()} for e in ln["ev"]], "attribute_accesses": ln["acc"]})
    bad = serverlib.validate(ctx, lines, "C15")
    serverlib.report(ctx, bad, "C15")
    ev.exhaustive = True
    ev.extra["sessions"] = len(lines)
    ev.extra["route_texts"] = len(texts)


replay = serverlib.replay
