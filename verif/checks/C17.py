"""C17 -- timestamps and durations survive render/parse; ordering matches the rendering.

M: spec/Times.tla on integer microseconds: rendering to milliseconds (round to nearest), the 1 ms epsilon comparison, a zone
   around one transition (offset before / after), durations as (seconds, microseconds) <-> unit tokens; TLC checks the
   order law on a window of instants around a second boundary (x.999..x+1.0026), the zone law for forward / backward
   transitions of 30..120 minutes, and Parse(Format(d)) = d on a product of boundary values per unit.
R: TLC emits the instant pairs (expected renderings and comparison results) and the duration domain (expected tokens):
   the real timestamp class must render and compare as computed (at several epochs), the real duration class must
   round-trip its own text and parse the spec's text to the same duration.
V: for real zones the harness reads the installed tz database with its own TZif reader and probes instants at
   transition + {-7201 s .. +7201 s} (x fractions .000 / .4996 / .9996 / ..., precisions 0..6): render with the generic zone
   name, parse back; TLC (TimesTrace) decides from the transition's two offsets whether the instant must come back
   or the wall-clock time is ambiguous and must be rejected -- never mapped to another instant.
"""
import json
import os
import random
import tempfile

from .. import core, tlc

LEVEL = "exploration"
ZONES_Q = ["America/Edmonton", "Europe/Berlin", "Australia/Lord_Howe", "America/St_Johns", "Asia/Kolkata", "Pacific/Auckland",
           "America/Sao_Paulo", "Europe/London", "Asia/Tehran", "Africa/Casablanca", "America/New_York", "Australia/Sydney",
           "America/Port-au-Prince", "US/East-Indiana"]            # (zone names containing the date separator)
DELTAS = [-7201, -7200, -3601, -3600, -1801, -1800, -1, 0, 1, 1799, 1800, 1801, 3599, 3600, 3601, 7199, 7200, 7201]
BASES = [0.0, 951782400.0, 1399326141.0, 1414915323.0, 2000000000.0]


def main(ctx):
    from .. import timeslib
    ev = ctx.ev
    wd = core.workdir()
    cfgp = os.path.join(wd, "times.cfg")
    tlc.write_cfg(cfgp, ["INIT TInit", "NEXT TNext", "CHECK_DEADLOCK FALSE"])
    res = tlc.run("MC_Times", cfgp, spec_dir=wd, timeout=1700, workers=4)
    ev.tlc("laws", res)
    durs = [j for j in res.json if j.get("k") == "dur"]
    pairs = [j for j in res.json if j.get("k") == "pair"]
    if not durs or not pairs:
        ctx.machinery.append("no vectors from MC_Times")
        return
    ev.rule = ("cases: duration vectors (product of boundary values per unit), instant pairs of a 2.6 ms window at 3-5 epochs, "
               "zone probes (zone x DST transition x 18 offsets x 11 fraction/precision pairs over precisions 0..6, incl. fractions that round up into the next second at that precision).  Non-trivial: durations "
               "with several units or sub-second parts; pairs within 1.1 ms of each other; probes within one offset "
               "difference of a transition.")
    ev.assumptions = ["exact half-way rounding ties are excluded (binary floating point may go either way)",
                      "the tz database content and strftime are trusted inputs; zones are described by the two offsets around each transition",
                      "DST-specific abbreviations are unavailable on this image (no classic pytz): only generic zone names are exercised"]
    # durations
    for j, r in zip(durs, core.pmap(timeslib.duration_probe, durs, chunksize=64)):
        ev.case(key=("dur", j["sec"], j["us"]), nontrivial=len(j["toks"]) > 1)
        if r["rt"] != [j["sec"], j["us"]]:
            ctx.violation("duration_roundtrip", {"duration": j, "got": r}, what="duration %ss+%sus formatted as %r parses back to %s" % (j["sec"], j["us"], r["text"], r["rt"]))
        elif r["rt_spec"] != [j["sec"], j["us"]]:
            ctx.violation("duration_parse", {"duration": j, "got": r}, what="duration text %r parses to %s, denotes %ss+%sus" % (r["spec_text"], r["rt_spec"], j["sec"], j["us"]))
    ev.sample({"duration": durs[len(durs) // 2], "text": timeslib.duration_text(durs[len(durs) // 2]["toks"])})
    # comparison vs rendering
    jobs = [(b, j) for b in (BASES if not ctx.quick else BASES[1:4]) for j in pairs]
    for (b, j), r in zip(jobs, core.pmap(timeslib.pair_probe, jobs, chunksize=64)):
        fr = (j["a"] % 1000, j["b"] % 1000)
        near = abs(abs(j["a"] - j["b"]) - 1000) <= 2 or any(499 <= x <= 501 for x in fr)
        ev.case(key=("pair", b, j["a"], j["b"]), nontrivial=abs(j["a"] - j["b"]) <= 1100)
        rec = {"base": b, "pair": j, "got": r}
        if (r["lt"] and not r["ra"] < r["rb"]) or (r["gt"] and not r["ra"] > r["rb"]) or (r["ra"] == r["rb"] and not r["eq"]):
            ctx.violation("order_vs_rendering", rec, what="timestamps %s: comparison lt=%s gt=%s eq=%s contradicts renderings" % (r["strs"], r["lt"], r["gt"], r["eq"]))
        elif not near and (r["rb2"] != r["rb"] or r["ra2"] != r["ra"] or not r["eq2"] or r["lt2"] != r["lt"]):
            ctx.violation("arithmetic_then_render", rec, what="timestamp %s + %sus renders %s ms (expected %s), back %s (expected %s), equal=%s" % (
                r["strs"][0], j["b"] - j["a"], r["rb2"], r["rb"], r["ra2"], r["ra"], r["eq2"]))
        elif not near and (r["ra"] != j["ra"] or r["rb"] != j["rb"] or r["lt"] != j["lt"] or r["gt"] != j["gt"]):
            ctx.violation("render_or_compare", rec, what="instants +%dus/+%dus at %s: spec renders %s/%s lt=%s gt=%s, code %s/%s lt=%s gt=%s" % (
                j["a"], j["b"], b, j["ra"], j["rb"], j["lt"], j["gt"], r["ra"], r["rb"], r["lt"], r["gt"]))
    # the timestamp object under in-place arithmetic (spec/TsObject.tla): a memoised rendering never outlives the value it renders
    cfg2 = os.path.join(wd, "tsobject.cfg")
    tlc.write_cfg(cfg2, ["SPECIFICATION Spec", "INVARIANT Coherent", "INVARIANT ShownIsValue", "CONSTRAINT Emit", "CHECK_DEADLOCK FALSE",
                         "CONSTANT MaxOps = %d" % (3 if ctx.quick else 4)])
    r2 = ctx.tlc("timestamp-object", "TsObject", cfg2, spec_dir=wd, timeout=1700, workers=4)
    hist = [j for j in r2.json if j.get("k") == "ts"]
    if not hist:
        ctx.machinery.append("no histories from TsObject")
        return
    hjobs = [(b, j) for b in (BASES[1:3] if ctx.quick else BASES) for j in hist]
    for (b, j), r in zip(hjobs, core.pmap(timeslib.ts_probe, hjobs, chunksize=256)):
        ev.case(key=("ts", b, j["start"], json.dumps(j["h"])), nontrivial=any(op != "str" and d < 1000 for op, d in j["h"]) and any(op == "str" for op, d in j["h"]))
        if abs(j["u"] % 1000 - 500) <= 3:
            continue                # within float error of a rounding tie
        rec = {"base": b, "history": j, "got": r}
        if r["exc"] or r["shown"] != j["r"] or r["fresh"] != j["r"] or not r["eq"]:
            ctx.violation("timestamp_object", rec, what="timestamp %s+%dus after %s shows %s ms (%s), its value renders %s ms (spec %s), equal to a fresh one: %s %s" % (
                b, j["start"], j["h"], r["shown"], r["utc"], r["fresh"], j["r"], r["eq"], r["exc"]))
        elif (r["lt0"] and not r["shown"] < r["orig"]) or (r["gt0"] and not r["shown"] > r["orig"]):
            ctx.violation("timestamp_object_order", rec, what="timestamp %s+%dus after %s compares lt=%s gt=%s to the original but shows %s ms vs %s ms" % (
                b, j["start"], j["h"], r["lt0"], r["gt0"], r["shown"], r["orig"]))
    ev.extra["timestamp_object_histories"] = len(hjobs)
    # zones
    import zoneinfo
    allz = sorted(z for z in zoneinfo.available_timezones() if "/" in z and not z.startswith(("Etc/", "posix/", "right/")))
    # quick: the fixed list plus every sixth zone of the database (all zones in the thorough tier)
    zones = sorted(set(ZONES_Q) | set(allz[::6])) if ctx.quick else allz
    zjobs = []
    for z in zones:
        trs = [t for t in timeslib.transitions(z) if 0 < t[0] < 2100000000]
        trs = trs[-8:] if ctx.quick else trs[-40:]
        for (T, o0, o1) in trs:
            for d in DELTAS:
                for ms, prec in ((0, 3), (499.6, 3), (999.6, 3), (123.456, 6), (960.0, 1), (40.0, 1), (996.0, 2), (4.0, 2), (0.0, 0), (999.9996, 6), (99.996, 4)):
                    zjobs.append((z, T, o0, o1, d, ms, prec))
    # zones without any transition (fixed offsets), among them names that END in a digit
    import datetime
    for z in ("Etc/GMT-3", "Etc/GMT+12", "GMT0", "Etc/GMT0", "Etc/UTC", "Etc/GMT-14"):
        try:
            off = int(zoneinfo.ZoneInfo(z).utcoffset(datetime.datetime(2020, 1, 1)).total_seconds())
        except Exception:
            continue
        for T in (951782400, 1399326141):
            for d in (0, 1, 3599):
                for ms, prec in ((0, 3), (499.6, 3), (999.6, 3), (123.456, 6)):
                    zjobs.append((z, T, off, off, d, ms, prec))
    zres = core.pmap(timeslib.zone_probe, zjobs, chunksize=64)
    fd, path = tempfile.mkstemp(prefix="times_", suffix=".ndjson")
    with os.fdopen(fd, "w") as f:
        for r in zres:
            f.write(json.dumps({k: r[k] for k in ("zone", "at", "off0", "off1", "u", "res", "got")}) + "\n")
    try:
        r3 = tlc.run("TimesTrace", "TimesTrace.cfg", env={"TRACE_FILE": path}, timeout=1700)
    finally:
        os.unlink(path)
    ev.tlc("zones", r3)
    if r3.distinct != len(zres):
        ctx.machinery.append("zone probes: TLC evaluated %d of %d" % (r3.distinct, len(zres)))
    for r in zres:
        ev.case(key=("zone", r["zone"], r["at"], r["u"], r["frac"], r["prec"]), nontrivial=abs(r["u"] - r["at"]) <= abs(r["off0"] - r["off1"]))
    for j in r3.json:
        if "tid" in j:
            r = zres[j["tid"] - 1]
            ctx.violation("zone_%s" % j["why"], {"probe": r, "why": j["why"]},
                          what="zone %s transition at %d (%+d -> %+d s): instant %d+%sms renders %r: %s" % (r["zone"], r["at"], r["off0"], r["off1"], r["u"], r["frac"], r.get("text"), j["why"]))
    rej = sum(1 for r in zres if r["res"] == "reject")
    ev.sample({"zone_probe": zres[len(zres) // 2]})
    ev.extra.update({"durations": len(durs), "pairs": len(jobs), "zone_probes": len(zres), "zone_probes_rejected": rej, "zones": len(zones)})


def replay(ctx, path):
    from .. import timeslib
    rec = json.load(open(path))
    if "probe" in rec:
        p = rec["probe"]
        print(timeslib.zone_probe((p["zone"], p["at"], p["off0"], p["off1"], p["asked"] - p["at"], p["frac"], p["prec"])))
    else:
        print(json.dumps(rec)[:800])
    return 1
