"""C09 -- concurrent sessions are isolated and each request is atomic.

M: spec/Concurrency.tla: sessions invoke requests, each (member) request takes effect in ONE atomic step on the shared tag
   model (LogixOps), replies return to their session; TLC explores every interleaving of eight scenarios (torn-read,
   private ranges, bundle + singles, three sessions, mixed): TagsWellFormed, PrivateKept, NoTornRead, termination.
R: forced schedules on real threads: one thread per session runs the real per-frame pipeline (enip_machine, logix.process,
   reply encoding); the locks of the shared parsers and every access to the tag storage are scheduling points; a
   controller releases exactly one thread at a time following TLC-emitted schedules (run session f for a points, then g
   for b points, then the rest), so every execution is deterministic and reproducible.
V: each execution's history (invocation / response order, request frames encoded by the spec, reply octets, final memory)
   is checked by TLC (ConcurrencyTrace) for linearizability against the tag model: some placement of atomic (member)
   effects between invocation and response must explain every reply and the final memory; each session must get
   exactly its own replies; no deadlock, no exception.
F: the same scenarios also run on free-running threads (every other repetition on a simulator that is not set up yet: the first
   requests of the sessions race through logix.setup) (no scheduler, no instrumented locks, interpreter switch interval
   1 us), hundreds of repetitions; the recorded invocation / response histories are judged by the same acceptor.
"""
import json
import os
import random
import tempfile

from .. import core, tlc

LEVEL = "model_checking"
SCEN = ["torn", "private", "bundle", "three", "mixed", "attr", "conn", "xtype"]


def PEER(s):
    """the peer address of session s: every session comes from the SAME host, from its own port"""
    return ("10.0.0.1", 5000 + s)


def final_table(nsess):
    """the Connection Manager's Forward Open table at the end: [session, connection serial] pairs (sessions by their peer address)"""
    from .. import vsock
    return [[s, ser] for s in range(1, nsess + 1) for ser in vsock.open_connections(PEER(s))]


def exec_schedule(job):
    import cpppo
    from cpppo.server.enip import parser, logix
    from .. import sim, sched
    sc, schedule = job[:2]
    cold = len(job) > 2 and job[2]     # a freshly started simulator: the first request sets the objects and tags up
    cfg = sc["cfg"]
    dev = sim.Device(cfg, defer=cold)
    dev.set_mem(sc["mem0"])
    kw = {"tags": dev.tags} if cold else {}
    for i, att in enumerate(dev.attrs):
        a = dev.attr_of(i) if not cold else att
        if not a.scalar:
            a.default = sched.SyncList(a.default)
            a.default.name = "t%d" % (i + 1)
    f, a, g, b = schedule
    order = [f] * a + [g] * (b if b < 99 else 400) + [f] * 400
    S = sched.Scheduler(order)
    undo = sched.install(S)
    ops, evs = [], []
    ids = {}
    for s, lst in enumerate(sc["ops"], start=1):
        for i, q in enumerate(lst):
            ops.append({"s": s, "r": q["r"], "rpy": []})
            ids[(s, i)] = len(ops)
    errors = []

    def body(s):
        def run():
            machine = parser.enip_machine(context="enip")
            for i, q in enumerate(sc["ops"][s - 1]):
                oid = ids[(s, i)]
                evs.append({"e": "inv", "id": oid})
                try:
                    if q.get("kind") == "end":          # the peer is gone: the server runs its end-of-session processing (an empty request)
                        logix.process(PEER(s), data=cpppo.dotdict(), **kw)
                        evs.append({"e": "resp", "id": oid})
                        continue
                    data = cpppo.dotdict()
                    source = cpppo.peekable(bytes(bytearray(q["fb"])))
                    with machine:
                        for _ in machine.run(source=source, data=data, path="request"):
                            pass
                    ok = logix.process(PEER(s), data=data, **kw)
                    rpy = bytes(parser.enip_encode(data.response.enip)) if ok else b""
                    want_ctx = bytes(bytearray(q["fb"][12:20]))
                    if rpy and rpy[12:20] != want_ctx:
                        errors.append("session %d got a reply with another context" % s)
                    at = 46 if q.get("kind") == "unit" else 40      # SendUnitData: connected address and data items with a sequence count
                    cip = list(rpy[at:]) if len(rpy) > at and rpy[8:12] == b"\0\0\0\0" else []
                    ops[oid - 1]["rpy"] = cip
                except Exception as exc:
                    errors.append("session %d: %r" % (s, exc))
                evs.append({"e": "resp", "id": oid})
        return run
    try:
        done = S.run({s: body(s) for s in range(1, len(sc["ops"]) + 1)})
    finally:
        undo()
    if not done:
        errors.append(S.failed or "did not finish")
    final = dev.get_mem()
    return {"cfg": cfg, "mem0": sc["mem0"], "ops": ops, "ev": evs, "final": final, "ftab": final_table(len(sc["ops"])), "errors": errors, "schedule": schedule,
            "which": sc["which"], "points": len(S.trace), "trace": ["%d:%s" % x for x in S.trace][:200], "cold": bool(cold)}


def exec_free(job):
    """the same scenario on free-running threads (no scheduler, no instrumented locks): the interpreter may switch threads
    anywhere (switch interval 1 us); invocation / response order as appended to one list (an append is atomic)"""
    import sys
    import threading
    import time
    import cpppo
    from cpppo.server.enip import parser, logix
    from .. import sim
    sc, rep = job
    cfg = sc["cfg"]
    cold = rep % 2 == 1               # a freshly started simulator: the sessions' first requests race through logix.setup
    dev = sim.Device(cfg, defer=cold)
    dev.set_mem(sc["mem0"])
    kw = {"tags": dev.tags} if cold else {}
    ops, evs, ids, errors = [], [], {}, []
    for s, lst in enumerate(sc["ops"], start=1):
        for i, q in enumerate(lst):
            ops.append({"s": s, "r": q["r"], "rpy": []})
            ids[(s, i)] = len(ops)
    go = threading.Event()
    jr = random.Random(rep)
    jitter = [jr.uniform(0.0, 0.004) for _ in range(4)]

    def body(s):
        def run():
            machine = parser.enip_machine(context="enip")
            go.wait()
            if cold and s > 1:         # arrive while the first session's request is still setting the simulator up
                time.sleep(jitter[s % len(jitter)])
            for i, q in enumerate(sc["ops"][s - 1]):
                oid = ids[(s, i)]
                evs.append({"e": "inv", "id": oid})
                try:
                    if q.get("kind") == "end":          # the peer is gone: the server runs its end-of-session processing (an empty request)
                        logix.process(PEER(s), data=cpppo.dotdict(), **kw)
                        evs.append({"e": "resp", "id": oid})
                        continue
                    data = cpppo.dotdict()
                    source = cpppo.peekable(bytes(bytearray(q["fb"])))
                    with machine:
                        for _ in machine.run(source=source, data=data, path="request"):
                            pass
                    ok = logix.process(PEER(s), data=data, **kw)
                    rpy = bytes(parser.enip_encode(data.response.enip)) if ok else b""
                    if rpy and rpy[12:20] != bytes(bytearray(q["fb"][12:20])):
                        errors.append("session %d got a reply with another context" % s)
                    at = 46 if q.get("kind") == "unit" else 40
                    ops[oid - 1]["rpy"] = list(rpy[at:]) if len(rpy) > at and rpy[8:12] == b"\0\0\0\0" else []
                except Exception as exc:
                    errors.append("session %d: %r" % (s, exc))
                evs.append({"e": "resp", "id": oid})
        return run
    old = sys.getswitchinterval()
    sys.setswitchinterval(1e-6)
    try:
        ths = [threading.Thread(target=body(s), daemon=True) for s in range(1, len(sc["ops"]) + 1)]
        for th in ths:
            th.start()
        go.set()
        for th in ths:
            th.join(20)
        if any(th.is_alive() for th in ths):
            errors.append("did not finish")
    finally:
        sys.setswitchinterval(old)
    overlap = any(evs[k]["e"] == "inv" and evs[k - 1]["e"] == "inv" for k in range(1, len(evs)))
    return {"cfg": cfg, "mem0": sc["mem0"], "ops": ops, "ev": list(evs), "final": dev.get_mem(), "ftab": final_table(len(sc["ops"])), "errors": errors, "schedule": ["free", rep],
            "which": sc["which"], "points": 0, "trace": [], "overlap": overlap}


def exec_routed(job):
    """two or three sessions whose requests are ROUTED ([UCMM] Route 1/2 --> a second simulator behind a slow link) at the same
    moment: all of them share the simulator's one connection to that device; every session must get the replies to its own
    requests.  Each session uses its own tag of the remote device, so ANY order of the sessions' requests that keeps each
    session's own order is a witness order: the history handed to RouteTrace is session 1's events, then session 2's, ..."""
    import socket
    import threading
    import time
    from .. import live
    cfg, plan, latency = job
    texts = []
    for tg in cfg["tags"]:
        name = bytes(bytearray(tg["name"])).decode("ascii")
        texts.append("%s=%s%s" % (name, tg["type"], "" if tg["scalar"] else "[%d]" % tg["len"]))
    remote = relay = srv = None
    socks, evs, exc = {}, {}, ""

    def talk(sk, st):
        try:
            sk.sendall(bytes(bytearray(st["fb"])))
            sk.settimeout(12.0)
            buf = b""
            while len(buf) < 24 or len(buf) < 24 + buf[2] + 256 * buf[3]:
                d = sk.recv(4096)
                if not d:
                    break
                buf += d
        except (socket.timeout, OSError):
            buf = b""
        whole = len(buf) >= 24 and len(buf) == 24 + buf[2] + 256 * buf[3]
        return {"f": st["f"], "b": list(buf) if whole else [], "hostile": False}
    try:
        remote = live.RemoteSim(texts)
        relay = live.Relay(remote.address, delay=latency, every=True)
        srv = live.LiveServer(cfg, pers={"k": "routing", "route": {"1/2": "%s:%d" % relay.address}})
        mem1 = srv.dev.get_mem()
        go = threading.Barrier(len(plan))
        for sid, steps in enumerate(plan):
            socks[sid] = socket.create_connection(srv.address, timeout=5)
            evs[sid] = [talk(socks[sid], steps[0])]          # register, one session after the other

        def body(sid):
            go.wait(10)
            for st in plan[sid][1:]:
                evs[sid].append(talk(socks[sid], st))
        ths = [threading.Thread(target=body, args=(sid,), daemon=True) for sid in range(len(plan))]
        for th in ths:
            th.start()
        for th in ths:
            th.join(60)
        if any(th.is_alive() for th in ths):
            exc = "sessions did not finish"
        end1 = srv.dev.get_mem()
    except Exception as e:
        exc = repr(e)
        mem1 = end1 = []
    finally:
        for sk in socks.values():
            try:
                sk.close()
            except OSError:
                pass
        if srv:
            srv.stop()
        if relay:
            relay.close()
        if remote:
            remote.stop()
    zero = [[[0] * {"INT": 2, "DINT": 4}[tg["type"]] for _ in range(tg["len"])] for tg in cfg["tags"]]
    ev = [e for sid in sorted(evs) for e in evs[sid]]
    return {"cfg1": cfg, "cfg2": cfg, "mem1": mem1, "mem2": zero, "via": {"k": "port", "p": 1, "l": 2}, "ev": ev, "end1": end1, "exc": exc,
            "steps": [[{k: v for k, v in st.items() if k != "fb"} for st in steps] for steps in plan]}


def exec_routed_sched(job):
    """FORCED schedules of two sessions whose requests are routed to the same remote device at the same moment: real threads run
    the real per-frame pipeline (as exec_schedule); besides the shared parser locks, taking exclusive use of the shared route
    connection (client.connector.__enter__: "acq:route") and sending on it ("send:route") are scheduling points.  One schedule:
    session f runs a points, then session g runs to completion, then the rest.  The remote device is a real simulator
    process.  Each session uses its own remote tag: the history handed to RouteTrace is session 1's events, then session 2's."""
    import cpppo
    from cpppo.server.enip import parser, logix, client
    from .. import sim, sched, live
    cfg, plan, schedule = job
    texts = []
    for tg in cfg["tags"]:
        name = bytes(bytearray(tg["name"])).decode("ascii")
        texts.append("%s=%s%s" % (name, tg["type"], "" if tg["scalar"] else "[%d]" % tg["len"]))
    f, a, g, b = schedule
    S = sched.Scheduler([f] * a + [g] * (b if b < 99 else 1000) + [f] * 1000)
    remote, undo, errors, evs = None, None, [], {}
    orig_enter, orig_send = client.connector.__enter__, client.connector.unconnected_send
    orig_exit, orig_await = client.connector.__exit__, client.await_response
    rev = []          # the route connection's event log (RouteConnTrace): acq after taking it, rel before giving it up, send before, rcv after

    def traced_enter(self):
        if not isinstance(self.frame.lock, sched.TracedLock):
            self.frame.lock = sched.TracedLock(S, "route")
        r = orig_enter(self)
        rev.append({"s": S.me() or 0, "e": "acq", "of": 0, "c": id(self)})
        return r

    def traced_exit(self, typ, val, tbk):
        rev.append({"s": S.me() or 0, "e": "rel", "of": 0, "c": id(self)})
        return orig_exit(self, typ, val, tbk)

    def traced_send(self, *args, **kwds):
        S.point("send:route")
        rev.append({"s": S.me() or 0, "e": "send", "of": 0, "c": id(self)})
        return orig_send(self, *args, **kwds)

    def traced_await(*args, **kwds):
        rsp, ela = orig_await(*args, **kwds)
        try:
            of = bytes(bytearray(rsp.enip.sender_context.input))[0] if rsp else 0     # the forwarded request carried its session's context
        except Exception:
            of = 0
        reg = False
        try:
            reg = bool(rsp) and rsp.enip.command == 0x0065       # connector creation: the Register Session reply
        except Exception:
            pass
        rev.append({"s": S.me() or 0, "e": "rcvreg" if reg else "rcv", "of": of, "c": id(args[0]) if args else id(kwds.get("cli"))})
        return rsp, ela
    mem1 = end1 = []
    try:
        remote = live.RemoteSim(texts)
        dev = sim.Device(cfg, pers={"k": "routing", "route": {"1/2": "%s:%d" % remote.address}})
        mem1 = dev.get_mem()
        undo = sched.install(S)
        client.connector.__enter__, client.connector.unconnected_send = traced_enter, traced_send
        client.connector.__exit__, client.await_response = traced_exit, traced_await

        def one(s, st):
            data = cpppo.dotdict()
            source = cpppo.peekable(bytes(bytearray(st["fb"])))
            machine = parser.enip_machine(context="enip")
            with machine:
                for _ in machine.run(source=source, data=data, path="request"):
                    pass
            ok = logix.process(PEER(s), data=data)
            rpy = bytes(parser.enip_encode(data.response.enip)) if ok else b""
            return {"f": st["f"], "b": list(rpy), "hostile": False}
        for sid, steps in enumerate(plan, start=1):
            evs[sid] = [one(sid, steps[0])]              # register: before the threads start

        def body(s):
            def run():
                for st in plan[s - 1][1:]:
                    try:
                        evs[s].append(one(s, st))
                    except Exception as exc:
                        errors.append("session %d: %r" % (s, exc))
                        evs[s].append({"f": st["f"], "b": [], "hostile": False})
            return run
        done = S.run({s: body(s) for s in range(1, len(plan) + 1)}, timeout=60.0)
        if not done:
            errors.append(S.failed or "did not finish")
        end1 = dev.get_mem()
    except Exception as e:
        errors.append("setup: %r" % (e,))
    finally:
        client.connector.__enter__, client.connector.unconnected_send = orig_enter, orig_send
        client.connector.__exit__, client.await_response = orig_exit, orig_await
        if undo:
            undo()
        if remote:
            remote.stop()
    zero = [[[0] * {"INT": 2, "DINT": 4}[tg["type"]] for _ in range(tg["len"])] for tg in cfg["tags"]]
    ev = [e for sid in sorted(evs) for e in evs[sid]]
    return {"cfg1": cfg, "cfg2": cfg, "mem1": mem1, "mem2": zero, "via": {"k": "port", "p": 1, "l": 2}, "ev": ev, "end1": end1, "exc": "", "errors": errors,
            "schedule": list(schedule), "trace": ["%d:%s" % x for x in S.trace], "rev": list(rev),
            "steps": [[{k: v for k, v in st.items() if k != "fb"} for st in steps] for steps in plan]}


def routed_part(ctx, wd, rng):
    """concurrent ROUTED sessions (seeded change C09-17): frames from MC_Server's routing frame set, histories judged by RouteTrace"""
    from .. import serverlib
    ev = ctx.ev
    scs = serverlib.emit_scenarios(ctx, wd, 1, "any", "routing", "routing")
    if not scs:
        return
    fr = [{"f": s["sc"]["frames"][0], "fb": s["fb"][0]} for s in scs]
    cfg = scs[0]["sc"]["cfg"]
    reg = [x for x in fr if x["f"]["kind"] == "register"][0]
    routed = [x for x in fr if x["f"]["kind"] == "rr" and x["f"]["route"][0]["l"] == 2 and "uticks" not in x["f"]]
    local = [x for x in fr if x["f"]["kind"] == "rr" and x["f"]["route"][0]["l"] == 0]
    tags = sorted(set(x["f"]["req"]["tag"] for x in routed))
    by = {t: {c: [x for x in routed if x["f"]["req"]["tag"] == t and x["f"]["ctx"][0] == c] for c in (1, 2)} for t in tags}
    jobs = []
    for n in range(6 if ctx.quick else 60):
        plan = []
        for sid in range(2):
            # session sid owns remote tag tags[(sid + n) % 2]; its sender context differs from the other session's
            mine = by[tags[(sid + n) % len(tags)]][1 + sid]
            wr = [x for x in mine if x["f"]["req"]["svc"] == "write"]
            rd = [x for x in mine if x["f"]["req"]["svc"] == "read"]
            steps = [reg, rng.choice(rd), rng.choice(wr), rng.choice(rd)]
            if n % 3 == 2:
                steps.insert(2, rng.choice([x for x in local if x["f"]["req"]["svc"] == "read"]))
            steps.append(rng.choice(rd))
            plan.append(steps)
        jobs.append((cfg, plan, 0.1 + 0.05 * (n % 3)))
    lines = core.pmap(exec_routed, jobs, chunksize=1, procs=min(6, len(jobs)))
    for ln in lines:
        ev.case(key="routed" + json.dumps(ln["steps"]), nontrivial=True)
        if ln["exc"]:
            ctx.machinery.append("concurrent routed scenario could not run: %s" % ln["exc"][:200])
    # forced schedules: a dry run (session 1 to completion, then session 2) gives each session's scheduling points
    plans = [jobs[0][1], jobs[1][1]] if ctx.quick else [j[1] for j in jobs[:6]]
    sjobs = []
    for plan in plans:
        for f, g in ((1, 2), (2, 1)):
            dry = exec_routed_sched((cfg, plan, (f, 0, f, 99)))
            if dry["errors"]:
                ctx.machinery.append("forced routed schedule dry run: %s" % "; ".join(dry["errors"])[:200])
                continue
            mine = [lab.split(":", 1)[1] for lab in dry["trace"] if lab.startswith("%d:" % f)]
            hot = [i for i, lab in enumerate(mine) if lab in ("acq:route", "send:route", "rel:route")]
            cand = sorted(set(x for i in hot for x in (i, i + 1))) if ctx.quick else list(range(len(mine) + 1))
            ev.extra["routed_points_per_session"] = len(mine)
            for a in cand:
                for b in ((99,) if ctx.quick else (99, 3, 12)):
                    sjobs.append((cfg, plan, (f, a, g, b)))
    slines = core.pmap(exec_routed_sched, sjobs, chunksize=1)
    for ln in slines:
        ev.case(key="routedsched" + json.dumps([ln["steps"], ln["schedule"]]), nontrivial=True)
        if ln["errors"]:
            ctx.violation("routed_concurrency_error", {"routed": True, "schedule": ln["schedule"], "errors": ln["errors"], "trace": ln["trace"][:300], "steps": ln["steps"]},
                          what="two routed sessions, schedule %s: %s" % (ln["schedule"], "; ".join(ln["errors"])[:300]))
    ev.extra["routed_forced_schedules"] = len(slines)
    # the shared route connection's own specification: RouteConn (model-checked), and the event logs of the forced schedules against it
    rc = tlc.run("MC_RouteConn", "MC_RouteConn.cfg", timeout=600, workers=4)
    ev.tlc("model:routeconn", rc)
    if rc.violated:
        ctx.spec_violation(rc, "model:routeconn")
    rc2 = tlc.run("MC_RouteConn", "MC_RouteConn_sendfirst.cfg", timeout=600, workers=4)
    ev.tlc("model:routeconn-send-first(expected to violate OwnReply)", rc2)
    if rc2.violated != "OwnReply":
        ctx.machinery.append("RouteConn: OwnReply is vacuous (the send-first discipline does not violate it)")
    # one log per connector OBJECT: two sessions' first routed requests may each create a connection (check-then-create in UCMM.request is not
    # locked; the later one replaces the earlier in route_conn, the earlier serves out its one request): each connection has its own lock and wire
    logs = []
    for ln in slines:
        conns = []
        for e in ln.get("rev", []):
            if e.get("c") not in conns:
                conns.append(e.get("c"))
        for c in conns:
            logs.append(dict(ln, rev=[{k: v for k, v in e.items() if k != "c"} for e in ln["rev"] if e.get("c") == c]))
    ev.extra["routeconn_runs_with_two_connections"] = sum(1 for ln in slines if len(set(e.get("c") for e in ln.get("rev", []))) > 1)
    if len(logs) < len(slines) // 2:
        ctx.machinery.append("route connection event logs missing: %d of %d" % (len(logs), len(slines)))
    if logs:
        fd, path = tempfile.mkstemp(prefix="rconn_", suffix=".ndjson")
        with os.fdopen(fd, "w") as f:
            for ln in logs:
                f.write(json.dumps({"ev": ln["rev"]}, separators=(",", ":")) + "\n")
        try:
            r4 = tlc.run("RouteConnTrace", "RouteConnTrace.cfg", env={"TRACE_FILE": path}, timeout=1200, workers=1)
        finally:
            os.unlink(path)
        ev.tlc("routeconn-trace", r4)
        rej = {}
        notes = set()
        for j in r4.json:
            if "note" in j:
                notes.add(j["tid"])
            elif "tid" in j:
                rej.setdefault(j["tid"], j)
        if notes:
            print("  NOTE: %d of %d route connection logs forward a request without exclusive use of the connection, or give it up before reading the reply (a discipline that RouteConn shows admits a wrong reply)" % (len(notes), len(logs)))
        ev.extra["routeconn_logs_departing_from_hold_discipline"] = len(notes)
        if not rej and r4.distinct != sum(len(ln["rev"]) + 1 for ln in logs):
            ctx.machinery.append("RouteConnTrace visited %d states, expected %d" % (r4.distinct, sum(len(ln["rev"]) + 1 for ln in logs)))
        for tid, j in rej.items():
            ln = logs[tid - 1]
            ctx.violation("routeconn_%s" % j["why"][:40], {"routed": True, "why": j["why"], "at": j["at"], "schedule": ln["schedule"], "rev": ln["rev"], "steps": ln["steps"]},
                          what="shared route connection, schedule %s: %s at event %d of %s" % (ln["schedule"], j["why"], j["at"], json.dumps([(e["s"], e["e"], e["of"]) for e in ln["rev"]])[:300]))
        ev.extra["routeconn_event_logs"] = len(logs)
        ev.extra["routeconn_events"] = sum(len(ln["rev"]) for ln in logs)
    lines = lines + [ln for ln in slines if not ln["errors"]]
    ev.sample({"routed_sessions": [[(st["f"]["kind"], st["f"]["req"]["svc"] if st["f"]["kind"] == "rr" else "", st["f"]["route"][0]["l"] if st["f"]["kind"] == "rr" else "")
                                    for st in steps] for steps in lines[0]["steps"]], "replies": [len(e["b"]) for e in lines[0]["ev"]]})
    fd, path = tempfile.mkstemp(prefix="routed_", suffix=".ndjson")
    with os.fdopen(fd, "w") as f:
        for ln in lines:
            f.write(json.dumps({k: ln[k] for k in ("cfg1", "cfg2", "mem1", "mem2", "via", "ev", "end1")}, separators=(",", ":")) + "\n")
    try:
        r3 = tlc.run("RouteTrace", "RouteTrace.cfg", env={"TRACE_FILE": path}, timeout=1200)
    finally:
        os.unlink(path)
    ev.tlc("routed", r3)
    rejected = {}
    for j in r3.json:
        if "tid" in j:
            rejected.setdefault(j["tid"], j)
    if not rejected and r3.distinct != sum(len(ln["ev"]) + 1 for ln in lines):
        ctx.machinery.append("RouteTrace visited %d states, expected %d" % (r3.distinct, sum(len(ln["ev"]) + 1 for ln in lines)))
    for tid, j in rejected.items():
        ln = lines[tid - 1]
        e = ln["ev"][min(j["at"], len(ln["ev"])) - 1]
        ctx.violation("routed_%s" % j["why"], {"routed": True, "why": j["why"], "at": j["at"], "steps": ln["steps"], "ev": ln["ev"]},
                      what="concurrent routed sessions: %s at event %d: request %s answered %s" % (
                          j["why"], j["at"], json.dumps(e["f"]["req"])[:160], e["b"][40:70]))
    ev.extra["routed_concurrent_scenarios"] = len(lines)


def validate(ctx, lines, name):
    bad = []
    CH = 3000
    for k in range(0, len(lines), CH):
        ch = lines[k:k + CH]
        fd, path = tempfile.mkstemp(prefix="conc_", suffix=".ndjson")
        with os.fdopen(fd, "w") as f:
            for ln in ch:
                f.write(json.dumps({x: ln[x] for x in ("cfg", "mem0", "ops", "ev", "final", "ftab")}, separators=(",", ":")) + "\n")
        try:
            res = tlc.run("ConcurrencyTrace", "ConcurrencyTrace.cfg", env={"TRACE_FILE": path}, timeout=2400, workers=1)
        finally:
            os.unlink(path)
        ctx.ev.tlc("linearizability:" + name, res)
        for j in res.json:
            if "tid" in j:
                bad.append((ch[j["tid"] - 1], j["why"]))
    return bad


def main(ctx):
    ev = ctx.ev
    wd = core.workdir()
    rng = random.Random(ctx.seed)
    ev.rule = ("cases: (scenario, schedule): 5 scenarios (2-3 sessions, reads / all-equal writes / private-range writes / bundles) "
               "x schedules `f runs a points, g runs b points, then the rest' for a in 0..80, b in {1..16,to-completion}, "
               "all ordered pairs of sessions.  Non-trivial: the schedule switches threads while a request is in progress "
               "(a within the number of scheduling points of f's requests).")
    ev.assumptions = ["free-running part: sampling (the interpreter's switch interval is set to 1 us); histories judged by the same linearizability acceptor",
                      "code between two scheduling points (shared parser locks, tag storage accesses) touches only thread-local data or GIL-atomic operations",
                      "per-frame pipeline driven in-process (parse, logix.process, encode); the socket layer is covered by C02/C06",
                      "a bundle is not atomic as a whole: its members are individually atomic, in member order"]
    jobs = []
    for w in SCEN:
        cfgp = os.path.join(wd, "conc_%s.cfg" % w)
        tlc.write_cfg(cfgp, ["SPECIFICATION CSpec", "CHECK_DEADLOCK FALSE", "INVARIANT TagsWellFormed", "INVARIANT PrivateKept",
                             "INVARIANT NoTornRead", "PROPERTY Terminates", "PROPERTY OwnConnections", "CONSTANTS", ' Which = "%s"' % w, " CC <- KCfg",
                             " Mem0 <- KMem0", " Ops <- KOps"])
        res = tlc.run("MC_Concurrency", cfgp, spec_dir=wd, timeout=1700, workers=8)
        ev.tlc("model:" + w, res)
        if res.violated:
            ctx.spec_violation(res, "model:" + w)
        sc = [j for j in res.json if j.get("k") == "scenario"]
        ss = [j for j in res.json if j.get("k") == "schedules"]
        if not sc or not ss:
            ctx.machinery.append("no scenario/schedules for %s" % w)
            return
        scheds = ss[0]["s"]
        if ctx.quick:
            scheds = [x for x in scheds if x[3] in (11, 99) or (x[1] + 2 * x[3]) % (8 if len(sc[0]["ops"]) > 2 else 4) == 0]     # (three sessions: six ordered pairs)
        for x in scheds:
            jobs.append((sc[0], x))
        if w in ("private", "mixed"):        # cold start: the other session arrives while the first one is inside logix.setup
            for x in ss[0]["s"]:
                if x[1] <= 12 and x[3] in (3, 4, 5, 6, 99):
                    jobs.append((sc[0], x, True))
    lines = core.pmap(exec_schedule, jobs, chunksize=8)
    maxpts = {}
    for ln in lines:
        maxpts[ln["which"]] = max(maxpts.get(ln["which"], 0), ln["points"])
    for ln in lines:
        ev.case(key=(ln["which"], tuple(ln["schedule"]), ln.get("cold", False)), nontrivial=0 < ln["schedule"][1] < ln["points"])
        if ln["errors"]:
            ctx.violation("concurrency_error", {"which": ln["which"], "schedule": ln["schedule"], "errors": ln["errors"], "trace": ln["trace"]},
                          what="scenario %s schedule %s: %s" % (ln["which"], ln["schedule"], "; ".join(ln["errors"])[:300]))
    mid = lines[len(lines) // 2]
    ev.sample({"scenario": mid["which"], "schedule": mid["schedule"], "scheduling_points": mid["trace"][:40],
               "history": mid["ev"], "replies": [o["rpy"][:24] for o in mid["ops"]]})
    bad = validate(ctx, [ln for ln in lines if not ln["errors"]], "forced")
    for ln, why in bad:
        ctx.violation("not_linearizable_%s" % ln["which"], {"which": ln["which"], "schedule": ln["schedule"], "ops": ln["ops"], "ev": ln["ev"],
                                                            "final": ln["final"], "trace": ln["trace"]},
                      what="scenario %s schedule %s: history not linearizable: replies %s final %s" % (
                          ln["which"], ln["schedule"], json.dumps([o["rpy"] for o in ln["ops"]])[:300], json.dumps(ln["final"])[:200]))
    # free-running threads: the same scenarios without any instrumentation, many repetitions
    scen = {}
    for job in jobs:
        scen[job[0]["which"]] = job[0]
    fjobs = [(scen[w], k) for w in sorted(scen) for k in range(120 if ctx.quick else 3000)]
    flines = core.pmap(exec_free, fjobs, chunksize=10)
    for ln in flines:
        ev.case(key=("free", ln["which"], json.dumps(ln["ev"])), nontrivial=ln["overlap"])
        if ln["errors"]:
            ctx.violation("concurrency_error_free", {"which": ln["which"], "errors": ln["errors"], "ev": ln["ev"]},
                          what="scenario %s on free-running threads: %s" % (ln["which"], "; ".join(ln["errors"])[:300]))
    bad = validate(ctx, [ln for ln in flines if not ln["errors"]], "free")
    for ln, why in bad:
        ctx.violation("not_linearizable_free_%s" % ln["which"], {"which": ln["which"], "ops": ln["ops"], "ev": ln["ev"], "final": ln["final"]},
                      what="scenario %s on free-running threads: history not linearizable: replies %s final %s" % (
                          ln["which"], json.dumps([o["rpy"] for o in ln["ops"]])[:300], json.dumps(ln["final"])[:200]))
    routed_part(ctx, wd, rng)
    ev.extra.update({"executions": len(lines), "scheduling_points_per_scenario": maxpts, "free_running_executions": len(flines),
                     "free_running_overlapping": sum(1 for ln in flines if ln["overlap"])})


def replay(ctx, path):
    rec = json.load(open(path))
    print(json.dumps({k: rec[k] for k in rec if k != "trace"})[:1500])
    print("scheduling points:", rec.get("trace", [])[:80])
    return 1
