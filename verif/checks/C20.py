"""C20 -- tnetstring serialisation round-trips and the streaming parser agrees with it.

M: spec/Tnet.tla defines Dump and Parse over a value ADT (arbitrary-precision integers as digit strings, floats as their
   text, byte strings, text as code points written in the encoding both sides are given (UTF-8, Latin-1), booleans, null, lists,
   string-keyed dictionaries); TLC checks Parse(Dump(v)) = (v, <<>>)
   and Parse(Dump(v) ++ tail) = (v, tail) for every value of the bounded domain (payloads that look like length
   prefixes, colons, type codes; multi-byte text; big / negative integers; containers nested to depth 2-3) and tails.
R: every emitted (value, octets) vector is replayed: tnetstrings.dump(value) = octets; tnetstrings.parse(octets [+ tail])
   = (equal value of exactly the same types, tail); for the payload types the streaming tnet_machine supports (bytes,
   text, integer, null) the machine is fed the octets whole, byte-at-a-time and at every two-way split, followed by
   every tail: it must extract the same payload and have consumed exactly Len(Dump(v)) symbols.
   The socket-level reader built on it (tnet_from, scripted receive function) gets streams of two messages -- back to back, or
   separated and followed by a newline it is told to ignore, payloads containing newlines included -- whole, bytewise and at
   every two-way split: it must yield exactly the two payloads.
M+R: spec/TnetReader.tla is that reader as a state machine (chunks arrive, receives time out); TLC checks ChunkingIndependent on
   every schedule of <= 3 chunks and <= 2 timeouts over streams of two messages and emits each complete schedule with the yields
   it must produce (timeouts included); each is replayed on the real tnet_from polling a scripted receive function.
"""
import json
import os

from .. import core, tlc

LEVEL = "model_checking"


def to_py(v):
    t = v["t"]
    if t == "int":
        n = int(bytes(bytearray(v["digits"])).decode("ascii"))
        return -n if v["neg"] else n
    if t == "float":
        return float(bytes(bytearray(v["txt"])).decode("ascii"))
    if t == "bool":
        return bool(v["v"])
    if t == "null":
        return None
    if t == "bytes":
        return bytes(bytearray(v["b"]))
    if t == "text":
        return "".join(chr(c) for c in v["cp"])
    if t == "list":
        return [to_py(x) for x in v["xs"]]
    return {bytes(bytearray(k)).decode("ascii"): to_py(x) for k, x in v["kv"]}


def same_typed(a, b):
    if type(a) is not type(b):
        return False
    if isinstance(a, list):
        return len(a) == len(b) and all(same_typed(x, y) for x, y in zip(a, b))
    if isinstance(a, dict):
        return list(a.keys()) == list(b.keys()) and all(same_typed(a[k], b[k]) for k in a)
    return a == b


def stream(octets, chunks, tail):
    """feed tnet_machine the chunks (then the tail); -> (payload, sent, terminal, next symbol, exception)"""
    import cpppo
    from cpppo.server import tnet
    source = cpppo.chainable()
    data = cpppo.dotdict()
    feed = [c for c in chunks if c]
    if tail:                      # further data arrives together with the end of the message
        feed[-1] = feed[-1] + tail
    try:
        with tnet.tnet_machine() as m:
            if feed:
                source.chain(feed.pop(0))
            for mch, sta in m.run(source=source, data=data):
                if sta is None and source.peek() is None:
                    if not feed:
                        break
                    source.chain(feed.pop(0))
            term = m.terminal
    except Exception as exc:
        return None, source.sent, False, None, type(exc).__name__
    return (data["tnet.type.input"] if "tnet.type.input" in data else "(none)"), source.sent, term, source.peek(), ""


def _replay(job):
    from cpppo.server import tnetstrings
    v, tails = job
    out = []
    want = bytes(bytearray(v["b"]))
    pv = to_py(v["v"])
    enc = v.get("enc", "utf-8")
    kw = {} if enc == "utf-8" and len(want) % 2 else {"encoding": enc}        # (the default encoding: given and not given)
    try:
        got = tnetstrings.dump(pv, **kw)
        if got != want:
            out.append("dump(%s): %r, spec says %r" % (kw, got, want))
        for tl in tails:
            tl = bytes(bytearray(tl))
            val, rem = tnetstrings.parse(want + tl, **kw)
            if not same_typed(val, pv):
                out.append("parse(+%r): value %r (%s) != %r" % (tl, val, type(val).__name__, pv))
            if rem != tl:
                out.append("parse(+%r): remainder %r" % (tl, rem))
    except Exception as exc:
        out.append("exception %r" % exc)
    nstream = 0
    if v["v"]["t"] in ("bytes", "text", "int", "null") and enc == "utf-8":
        L = len(want)
        chunkings = [[want], [want[i:i + 1] for i in range(L)]] + [[want[:k], want[k:]] for k in range(1, L)]
        for tl in tails:
            tl = bytes(bytearray(tl))
            for ch in chunkings:
                nstream += 1
                payload, sent, term, nxt, exc = stream(want, ch, tl)
                if exc or not term or sent != L or not same_typed(payload, pv) or (tl and nxt != tl[0]):
                    out.append("stream chunks %r tail %r: payload=%r sent=%d/%d terminal=%s next=%r exc=%s" % (
                        [len(c) for c in ch][:6], tl, payload, sent, L, term, nxt, exc))
                    break
    return out, nstream


def _reader(job):
    """the socket-level reader tnet_from over a scripted receive function: a stream of two messages, optionally separated
    (and followed) by a symbol the reader is told to ignore, under every two-way split, bytewise and whole"""
    import cpppo  # noqa
    from cpppo.server import tnet, network
    (v1, v2), sep, ignore = job
    m1, m2 = bytes(bytearray(v1["b"])), bytes(bytearray(v2["b"]))
    want = [to_py(v1["v"]), to_py(v2["v"])]
    streamb = m1 + sep + m2 + sep
    out, n = [], 0
    chunkings = [[streamb], [streamb[i:i + 1] for i in range(len(streamb))]] + [[streamb[:k], streamb[k:]] for k in range(1, len(streamb))]
    for ch in chunkings:
        n += 1
        script = list(ch) + [b""]

        def recv(conn, maxlen=1024, timeout=None, closeprob=None):
            return script.pop(0) if script else b""
        saved = network.recv
        network.recv = recv
        got, exc = [], ""
        try:
            for m in tnet.tnet_from(None, ("reader", 1), timeout=None, ignore=ignore):
                got.append(m)
                if len(got) > 4:
                    break
        except Exception as e:
            exc = type(e).__name__
        finally:
            network.recv = saved
        if exc or len(got) != 2 or not all(same_typed(a, b) for a, b in zip(got, want)):
            out.append("tnet_from(ignore=%r) on %r delivered as %r: yielded %r %s, the messages are %r" % (ignore, streamb, [len(c) for c in ch][:6], got, exc, want))
            break
    return out, n


def _sched(j):
    """one schedule of chunks and receive timeouts (spec/TnetReader.tla) on the real tnet_from, polling (timeout=0)"""
    import cpppo  # noqa
    from cpppo.server import tnet, network
    stream = bytes(bytearray(j["b"]))
    script, at = [], 0
    for kind, n in j["h"]:
        if kind == "recv":
            script.append(stream[at:at + n])
            at += n
        else:
            script.append(None)
    script.append(b"")

    def recv(conn, maxlen=1024, timeout=None, closeprob=None):
        return script.pop(0) if script else b""
    want = [("timeout", None) if o["y"] == "timeout" else ("msg", to_py(o["v"])) for o in j["out"]]
    saved = network.recv
    network.recv = recv
    got, exc = [], ""
    try:
        for m in tnet.tnet_from(None, ("reader", 2), timeout=0, ignore=bytes(bytearray(j["ignore"])) or None):
            got.append(m)
            if len(got) > len(want) + 2:
                break
    except Exception as e:
        exc = type(e).__name__
    finally:
        network.recv = saved
    # a null message and a timeout both yield None: told apart by position only
    ok = not exc and len(got) == len(want) and all((g is None) if k == "timeout" else same_typed(g, w) for g, (k, w) in zip(got, want))
    return "" if ok else "tnet_from(timeout=0, ignore=%r) on %r in schedule %s yielded %r %s, the specification says %r" % (
        bytes(bytearray(j["ignore"])), stream, j["h"], got, exc, want)


def main(ctx):
    ev = ctx.ev
    wd = core.workdir()
    cfgp = os.path.join(wd, "tnet.cfg")
    tlc.write_cfg(cfgp, ["INIT TInit", "NEXT TNext", "CHECK_DEADLOCK FALSE", "CONSTANTS", " Deep = %s" % ("FALSE" if ctx.quick else "TRUE")])
    res = tlc.run("MC_Tnet", cfgp, spec_dir=wd, timeout=1700, workers=4)
    ev.tlc("values", res)
    vecs = [j for j in res.json if j.get("k") == "tnet"]
    tails = [j["tails"] for j in res.json if j.get("k") == "tails"]
    if not vecs or not tails:
        ctx.machinery.append("no tnet vectors emitted")
        return
    ev.rule = ("vectors: every value of the bounded domain in UTF-8 and, where it contains text that Latin-1 can write, in Latin-1 (27 atoms incl. payloads like '1:', ',', '12:a,', '0:~', multi-byte "
               "text, 20-digit and negative integers, floats; lists/dicts of <= 2 entries nested to depth 2-3) x 5 tails; "
               "streaming: whole / bytewise / every two-way split.  Non-trivial: container, or a payload containing a digit, "
               "colon or type code, or multi-byte text.")
    ev.assumptions = ["floats are carried as the text Python's repr gives (no float arithmetic in the spec)",
                      "dictionary order = insertion order"]
    results = core.pmap(_replay, [(v, tails[0]) for v in vecs], chunksize=16)
    for v, (probs, ns) in zip(vecs, results):
        t = v["v"]["t"]
        nt = t in ("list", "dict") or (t == "bytes" and any(c in (44, 58, 35, 93, 126) or 48 <= c <= 57 for c in v["v"]["b"])) or (t == "text" and any(c > 127 for c in v["v"]["cp"])) or v["enc"] != "utf-8"
        ev.case(key=(v["enc"], json.dumps(v["b"])), nontrivial=nt)
        ev.impl += ns
        for p in probs[:2]:
            ctx.violation("tnet_%s" % t, {"vector": v, "tails": tails[0], "problem": p}, what="tnetstring %s: %s" % (bytes(bytearray(v["b"])), p))
    # the socket-level reader (tnet_from): pairs of streamable messages, with and without an ignored separator
    import random
    rng = random.Random(ctx.seed)
    atoms = [v for v in vecs if v["v"]["t"] in ("bytes", "text", "int", "null") and v["enc"] == "utf-8"]
    pairs = [(a, b) for a in atoms for b in atoms]
    if ctx.quick:
        nl = [p for p in pairs if any(10 in x["b"][2:] for x in p)]
        pairs = nl + rng.sample(pairs, 120)
    rjobs = []
    for p in pairs:
        rjobs += [(p, b"", None), (p, b"", b"\n"), (p, b"\n", b"\n")]
    for (p, sep, ign), (probs, nr) in zip(rjobs, core.pmap(_reader, rjobs, chunksize=8)):
        ev.case(key=("reader", json.dumps(p[0]["b"]), json.dumps(p[1]["b"]), len(sep), bool(ign)), nontrivial=bool(sep) or any(10 in x["b"] for x in p))
        ev.impl += nr
        for q in probs[:1]:
            ctx.violation("tnet_reader", {"reader": True, "messages": [p[0]["b"], p[1]["b"]], "sep": list(sep), "ignore": list(ign or b""), "problem": q}, what=q)
    ev.extra["reader_streams"] = len(rjobs)
    # the reader as a state machine (TnetReader.tla): every schedule of <= 3 chunks and <= 1 (quick) / 2 receive timeouts
    cfg3 = os.path.join(wd, "reader.cfg")
    tlc.write_cfg(cfg3, ["SPECIFICATION Spec", "INVARIANT ChunkingIndependent", "INVARIANT Prefix", "CONSTRAINT Emit", "CHECK_DEADLOCK FALSE",
                         "CONSTANTS", " Streams <- MCStreams", " MaxChunks = 3", " MaxTimeouts = %d" % (1 if ctx.quick else 2)])
    r3 = ctx.tlc("reader", "MC_TnetReader", cfg3, spec_dir=wd, timeout=1700, workers=8)
    scheds = [j for j in r3.json if j.get("k") == "sched"]
    if not scheds:
        ctx.machinery.append("no schedules from TnetReader")
        return
    for j, prob in zip(scheds, core.pmap(_sched, scheds, chunksize=128)):
        ev.case(key=("sched", json.dumps(j["b"]), json.dumps(j["ignore"]), json.dumps(j["h"])), nontrivial=any(k == "timeout" for k, n in j["h"]) or len(j["h"]) > 1)
        ev.impl += 1
        if prob:
            ctx.violation("tnet_reader_schedule", {"schedule": j, "problem": prob}, what=prob)
    ev.extra["reader_schedules"] = len(scheds)
    ev.sample({"value": vecs[len(vecs) // 2]["v"], "octets": bytes(bytearray(vecs[len(vecs) // 2]["b"])).decode("latin-1")})
    ev.sample({"value": vecs[-1]["v"], "octets": bytes(bytearray(vecs[-1]["b"])).decode("latin-1")})
    ev.exhaustive = True
    ev.extra["values"] = len(vecs)


def replay(ctx, path):
    rec = json.load(open(path))
    if "schedule" in rec:
        prob = _sched(rec["schedule"])
        print("problem now:", prob or "none")
        return 1 if prob else 0
    probs, _ = _replay((rec["vector"], rec["tails"]))
    print("vector:", bytes(bytearray(rec["vector"]["b"])))
    print("problems now:", probs or "none")
    return 1 if probs else 0
