"""C19 -- merging register ranges never drops a requested register.

M: TLC checks the sorted sweep (as designed, with the running maximum) against Ranges!Post for every input
   multiset of the bounded domain x reach x limit.
R: TLC emits every input multiset of that domain; the real merge()/shatter() are run on each (every reach and
   limit, presented in sorted and in a shuffled order); the recorded (input, output) pairs go back to TLC, which
   evaluates Ranges!Post / ShatterPost on each one (RangesTrace).
V: seeded random larger sets of ranges with realistic addresses, same validation.
"""
import json
import os
import random
import tempfile

from .. import core, tlc

LEVEL = "model_checking"
REACHES = [0, 1, 2, 3]
LIMITS = [0, 1, 2, 5]


def _call_merge(inp, reach, limit):
    from cpppo.remote.plc_modbus import merge
    try:
        out = [list(r) for r in merge([tuple(r) for r in inp], reach=reach, limit=(limit or None))]
        return out, ""
    except Exception as exc:  # the property says merge "yields"; an escaping exception is recorded
        return [], type(exc).__name__


def _call_shatter(a, c, limit):
    from cpppo.remote.plc_modbus import shatter
    try:
        return [list(r) for r in shatter(a, c, limit=(limit or None))], ""
    except Exception as exc:
        return [], type(exc).__name__


def _work(job):
    kind, payload, seed = job
    rng = random.Random(seed)
    lines = []
    if kind == "merge":
        inp = payload
        for reach in REACHES:
            for limit in LIMITS:
                order = list(inp)
                rng.shuffle(order)
                for given in ([inp] if order == inp else [inp, order]):
                    out, exc = _call_merge(given, reach, limit)
                    lines.append({"k": "merge", "inp": inp, "reach": reach, "limit": limit, "out": out, "exc": exc})
    elif kind == "mergeP":
        inp, reach, limit = payload
        out, exc = _call_merge(inp, reach, limit)
        lines.append({"k": "merge", "inp": inp, "reach": reach, "limit": limit, "out": out, "exc": exc})
    else:
        a, c, limit = payload
        out, exc = _call_shatter(a, c, limit)
        lines.append({"k": "shatter", "a": a, "c": c, "limit": limit, "out": out, "exc": exc})
    return lines


def validate(ctx, lines, name):
    """Hand recorded calls to TLC (RangesTrace); returns list of (line, why) that violate Post."""
    bad = []
    CH = 40000
    for off in range(0, len(lines), CH):
        chunk = lines[off:off + CH]
        fd, path = tempfile.mkstemp(prefix="c19_", suffix=".ndjson")
        with os.fdopen(fd, "w") as f:
            for ln in chunk:
                f.write(json.dumps(ln) + "\n")
        try:
            res = tlc.run("RangesTrace", "RangesTrace.cfg", env={"TRACE_FILE": path}, timeout=1500)
        finally:
            os.unlink(path)
        ctx.ev.tlc(name, res)
        if res.distinct != len(chunk):
            ctx.machinery.append("%s: TLC evaluated %d of %d recorded calls" % (name, res.distinct, len(chunk)))
        for j in res.json:
            bad.append((chunk[j["tid"] - 1], j["why"]))
    return bad


def main(ctx):
    ev = ctx.ev
    tier = ctx.tier
    ev.rule = ("inputs: every sorted multiset of <= 3 ranges over the configured addresses (both sides of the "
               "10000 bank boundary) x counts x reach {0..3} x limit {none,1,2,5}, emitted by TLC; plus seeded "
               "random sets of up to 12 ranges, and multi-bank sets with ranges longer than the default transfer limits.  Non-trivial: the input has at least two ranges that overlap, "
               "nest, touch or lie within reach (so a merge decision is taken).")
    ev.assumptions = [
        "inputs containing zero-count (empty) requests are judged without the reach clause (chains of them extend a merged "
        "range beyond reach in design and code alike); sortedness, limits, banks and coverage of every requested register still hold",
        "register bank of an address = address div 10000, as the code defines it",
        "reach r means: every covered register lies within max(r,1) of a requested one",
    ]
    # M: the design satisfies the post-condition
    res = ctx.tlc("design", "Ranges", "MC_Ranges_%s.cfg" % tier, timeout=1700)
    # R: every input of the domain through the real code
    emit = ctx.tlc("emit", "Ranges", "MC_Ranges_emit_%s.cfg" % tier, timeout=600)
    inputs = [j["inp"] for j in emit.json if "inp" in j]
    if len(inputs) != emit.distinct:
        ctx.machinery.append("emission incomplete: %d of %d" % (len(inputs), emit.distinct))
    jobs = [("merge", inp, ctx.seed + k) for k, inp in enumerate(inputs)]
    addrs = sorted({r[0] for inp in inputs for r in inp})
    counts = sorted({r[1] for inp in inputs for r in inp}) + [0, 9, 124, 1969, 4000]
    for a in addrs + [40001, 100001]:
        for c in counts:
            for l in LIMITS:
                jobs.append(("shatter", (a, c, l), 0))
    # V: random larger sets
    rng = random.Random(ctx.seed)
    nrand = 1500 if ctx.quick else 20000
    for k in range(nrand):
        bank = rng.choice([0, 0, 1, 3, 4])
        basea = bank * 10000 + rng.choice([1, 50, 9950])
        n = rng.randint(1, 12)
        inp = []
        for _ in range(n):
            a = basea + rng.randint(0, 45)
            c = rng.randint(1, 12)
            if (a + c - 1) // 10000 != a // 10000:
                c = 1
            inp.append([a, c])
        inp.sort()
        jobs.append(("mergeP", (inp, rng.choice([0, 1, 2, 5, 10]), rng.choice([0, 0, 3, 7, 16])), 0))
    # empty requests (count 0) among the ranges: nothing that is requested may be dropped because of them
    for k in range(300 if ctx.quick else 5000):
        basea = rng.choice([0, 1, 4]) * 10000 + rng.choice([1, 50, 9950])
        inp = []
        for _ in range(rng.randint(2, 6)):
            a = basea + rng.randint(0, 40)
            c = rng.choice([0, 0, 1, 2, 5])
            if c and (a + c - 1) // 10000 != a // 10000:
                c = 1
            inp.append([a, c])
        if not any(r[1] == 0 for r in inp) or not any(r[1] for r in inp):
            continue
        inp.sort()
        jobs.append(("mergeP", (inp, rng.choice([0, 1, 2, 5, 10]), rng.choice([0, 0, 3, 7])), 0))
    # every 10000 boundary up to the six-digit addresses: neighbours on both sides, within reach of each other
    for x in range(1, 12):
        edge = x * 10000
        for lo, hi, reach in ((edge - 1, edge, 1), (edge - 1, edge + 1, 5), (edge - 3, edge, 10), (edge - 1, edge, 0)):
            for lim in (0, 3):
                jobs.append(("mergeP", ([[lo, 1], [hi, 2]], reach, lim), 0))
                jobs.append(("mergeP", ([[lo - 4, 5], [hi, 1], [hi + 2, 1]], reach, lim), 0))
    # several register banks in one input, merged ranges longer than the default transfer limits (no limit given: 1968 for
    # coils / discrete inputs, 123 for registers -- per emitted range, whatever came before it)
    for k in range(60 if ctx.quick else 1500):
        inp = []
        for bank_base in rng.sample([1, 10001, 30001, 40001, 100001, 400001], rng.randint(1, 3)):
            a = bank_base + rng.choice([0, 5, 100])
            for _ in range(rng.randint(1, 3)):
                c = rng.choice([1, 60, 123, 124, 200, 300])
                if a >= bank_base and a // 10000 == (a + c - 1) // 10000 == bank_base // 10000:
                    inp.append([a, c])            # (every requested range lies inside one register bank)
                a += c + rng.choice([-20, 0, 1, 2, 7])
        if not inp:
            continue
        inp.sort()
        jobs.append(("mergeP", (inp, rng.choice([0, 1, 2, 5]), rng.choice([0, 0, 0, 50, 123])), 0))
    results = core.pmap(_work, jobs)
    lines = [ln for r in results for ln in r]
    for ln in lines:
        if ln["k"] == "merge":
            inp = ln["inp"]
            nt = any(inp[i + 1][0] < inp[i][0] + inp[i][1] + max(ln["reach"], 1) for i in range(len(inp) - 1))
            ev.case(key=json.dumps([inp, ln["reach"], ln["limit"]]), nontrivial=nt)
        else:
            ev.case(key=json.dumps(["s", ln["a"], ln["c"], ln["limit"]]), nontrivial=ln["c"] > max(ln["limit"], 1))
    for s in lines[len(lines) // 3:len(lines) // 3 + 3] + lines[-2:]:
        ev.sample(s)
    bad = validate(ctx, lines, "post")
    seen = set()
    for ln, why in bad:
        key = (ln["k"], why)
        rec = {"call": ln, "why": why, "clause": why, "kind": ln["k"],
               "replay": "./check C19 quick --replay <this file>"}
        if ctx.violation("%s_%s" % key, rec, what="%s violates %s: %s" % (ln["k"], why, json.dumps(ln))):
            seen.add(key)
    ev.exhaustive = True
    ev.extra["domain_inputs"] = len(inputs)
    ev.extra["random_inputs"] = nrand


def replay(ctx, path):
    rec = json.load(open(path))
    ln = rec["call"]
    if ln["k"] == "merge":
        out, exc = _call_merge(ln["inp"], ln["reach"], ln["limit"])
    else:
        out, exc = _call_shatter(ln["a"], ln["c"], ln["limit"])
    now = dict(ln, out=out, exc=exc)
    print("recorded:", json.dumps(ln))
    print("now     :", json.dumps(now))
    bad = validate(ctx, [now], "replay")
    print("verdict :", bad[0][1] if bad else "ok")
    return 1 if bad else 0
