"""C11 -- regular-expression machines accept exactly the expression's language.

M/oracle: spec/Regex.tla gives two independent semantics of regular expressions (Brzozowski derivatives and direct
   membership by splitting); TLC checks that they agree on every expression of the bounded domain and computes, for every
   (expression, string), the longest viable prefix and whether it is a sentence (Expected).
R: for every expression TLC emits its text and the expected outcome for every string up to the length bound; cpppo.regex
   (symbols) and cpppo.regex_bytes (UTF-8 octets; P and E of the spec's alphabet are the 2- and 3-octet symbols pi and euro)
   are built from the text and fed each string whole, symbol-at-a-time and at sampled two-way splits: consumed count,
   stored prefix, acceptance / NonTerminal must be what the oracle says.
As coded: spec/RegexBytes.tla is the translation into octet machines as automata.py performs it (DEVIATION(code): '.' is one
   octet; named multi-octet symbols are entered octet by octet); TLC emits its outcome for every (expression, string) too, and
   whether construction is refused.  A run the property rejects is the known finding F10 / F11 only if it is precisely that
   outcome under every chunking; a run the property accepts that differs from it is reported as SPEC-DRIFT (no violation).
"""
import json
import os
import random

from .. import core, tlc

LEVEL = "model_checking"
SYM0 = {1: "a", 2: "b", 3: "z", 4: "π", 5: "€", 6: "ρ", 7: "₭", 8: "→"}
LEAD = {"π": "ρ", "é": "è"}      # a symbol sharing its lead octet with the two-octet symbol
SYM = SYM0


def run(m, chunks, limit=400):
    import cpppo
    source = cpppo.chainable()
    data = cpppo.dotdict()
    feed = [c for c in chunks if len(c)]
    try:
        with m:
            if feed:
                source.chain(feed.pop(0))
            n = 0
            for mch, sta in m.run(source=source, data=data):
                n += 1
                if n > limit:
                    return source.sent, None, False, "LOOP"
                if sta is None and source.peek() is None and feed:
                    source.chain(feed.pop(0))
            term = m.terminal
    except cpppo.NonTerminal:
        term, exc = False, "NonTerminal"
    except Exception as exc_:
        term, exc = False, type(exc_).__name__
    else:
        exc = ""
    stored = data.get("r.input")
    return source.sent, (stored.tobytes() if stored is not None and stored.typecode == "B" else (stored.tounicode() if stored is not None else None)), term, exc


def _work(job):
    import cpppo
    text, strs, res, seed = job[:4]
    SYM = dict(SYM0)
    SYM[4] = job[4]       # the two-octet symbol: U+03C0 or a Latin-1 range one (U+00E9)
    SYM[6] = LEAD[job[4]]
    sup, cod = job[5], job[6]     # the coded translation (RegexBytes.tla): construction accepted, (octets consumed, accept) per string
    rng = random.Random(seed)
    rx = text.replace("P", SYM[4]).replace("E", SYM[5])
    out = {"text": rx, "problems": [], "runs": 0, "bytes_supported": True, "multibyte": 0, "drift": [], "coded_checked": 0}
    machines = []
    try:
        machines.append(("str", cpppo.regex(initial=rx, context="r", terminal=True)))
    except Exception as exc:
        out["problems"].append({"m": "str", "s": None, "why": "construction failed: %r" % exc})
        return out
    try:
        machines.append(("bytes", cpppo.regex_bytes(initial=rx, context="r", terminal=True)))
    except AssertionError:
        out["bytes_supported"] = False       # documented restriction on multi-byte symbols sharing a state
    except Exception as exc:
        out["problems"].append({"m": "bytes", "s": None, "why": "construction failed: %r" % exc})
    if out["bytes_supported"] != bool(sup) and not out["problems"]:
        out["drift"].append({"s": None, "why": "construction %s, coded-translation model says %s" % (
            "accepted" if out["bytes_supported"] else "refused", "supported" if sup else "unsupported")})
    thin = len(job) > 7 and job[7]       # quick tier: every string of length <= 2, every fourth of the longer ones (rotating with the expression)
    for idx, (syms, (n, acc)) in enumerate(zip(strs, res)):
        if thin and len(syms) > 2 and (idx + seed) % 4:
            continue
        s = "".join(SYM[c] for c in syms)
        for kind, m in machines:
            if kind == "str":
                inp, pre = s, s[:n]
                pieces = list(s)
            else:
                inp, pre = s.encode("utf-8"), s[:n].encode("utf-8")
                pieces = [inp[i:i + 1] for i in range(len(inp))]
            chunkings = [[inp], pieces]
            if len(inp) > 2 and rng.random() < 0.25:
                k = rng.randrange(1, len(inp))
                chunkings.append([inp[:k], inp[k:]])
            first_bad, results = None, []
            for ch in chunkings:
                out["runs"] += 1
                sent, stored, term, exc = run(m, ch)
                results.append((sent, stored, term, exc))
                ok = (term and not exc and sent == len(pre) and (stored or type(pre)()) == pre) if acc else (not term and exc == "NonTerminal")
                if not acc and ok:
                    # rejected, as required; "rather than absorbed": nothing beyond the viable prefix may have been taken
                    ok = sent <= len(pre)
                f10 = False
                if not ok and kind == "bytes":
                    # the class of the known defect F10: the machine failed after taking a proper prefix of a multi-octet symbol's
                    # encoding (its position in the input is not a symbol boundary)
                    bounds = {0}
                    for c in syms:
                        bounds.add(max(bounds) + len(SYM[c].encode("utf-8")))
                    f10 = exc == "NonTerminal" and not term and sent not in bounds and (stored or b"") == inp[:sent]
                if not ok and first_bad is None:
                    first_bad = (ch, sent, stored, term, exc, f10)
            coded = None
            if kind == "bytes" and sup and cod:
                # what the coded translation does with these octets, whatever the chunking
                cn, cacc = cod[idx]
                want = (cn, inp[:cn] if cn else None, True, "") if cacc else (cn, inp[:cn] if cn else None, False, "NonTerminal")
                coded = all((r[0], r[1] or None, r[2], r[3]) == want for r in results)
                out["coded_checked"] += 1
                if first_bad is None and not coded:
                    out["drift"].append({"s": syms, "why": "property holds, coded-translation model says (consumed, accept) = %s" % [cn, cacc],
                                         "got": [repr(x) for x in results[0]]})
            if first_bad is not None:
                ch, sent, stored, term, exc, f10 = first_bad
                mb = kind == "bytes" and any(c in (4, 5, 6, 7, 8) for c in syms)
                # whatever language a machine accepts, its behaviour must not depend on the chunking, what it stored must be the
                # input it consumed, and the only failure is NonTerminal: a disagreement with the oracle that breaks these is not
                # the known octet-level reading of '.' / negated classes (F11), it is something else
                consistent = (len(set((r[0], r[1], r[2], r[3]) for r in results)) == 1
                              and all(r[3] in ("", "NonTerminal") for r in results)
                              and all(r[1] is None or (r[1] == inp[:len(r[1])] and r[0] >= len(r[1])) for r in results))
                out["problems"].append({"m": kind, "s": syms, "chunks": [len(c) for c in ch], "want": [n, acc],
                                        "got": [sent, repr(stored), term, exc], "multibyte_input": mb, "f10": f10, "consistent": consistent, "coded": bool(coded)})
    return out


def main(ctx):
    ev = ctx.ev
    wd = core.workdir()
    cfgp = os.path.join(wd, "re.cfg")
    maxlen = 3 if ctx.quick else 4
    tlc.write_cfg(cfgp, ["INIT RInit", "NEXT RNext", "CONSTRAINT REmit", "CHECK_DEADLOCK FALSE", "CONSTANTS", " Sigma = {1,2,3,4,5,6,7,8}",
                         " MaxLen = %d" % maxlen, " Size3 = TRUE", " Enc <- EncDef"])
    res = tlc.run("MC_Regex", cfgp, spec_dir=wd, timeout=3000)
    ev.tlc("oracle", res)
    strs = [j["strs"] for j in res.json if j.get("k") == "strs"]
    exprs = [j for j in res.json if j.get("k") == "re"]
    if not strs or len(exprs) != res.distinct:
        ctx.machinery.append("oracle emission incomplete: %d/%d expressions" % (len(exprs), res.distinct))
        return
    strs = strs[0]
    ev.rule = ("cases: (expression, string, chunking): every expression of size <= 2 and every cat/alt of two atoms (quick) / "
               "also size 3 (thorough) over atoms {a, b, pi, euro, '.', [ab], [a pi], [b euro], [^a], [^pi], [^a euro]} with "
               "* + ? {m,n}; every string of length <= 2 and (quick: every fourth, rotating with the expression; thorough: every) string of length 3..%d over {a, b, z, pi, euro, rho (lead octet of pi), kip (two lead octets of euro), arrow (one lead octet of euro)}; machines over symbols and over UTF-8 octets; "
               "whole / symbol-at-a-time / sampled two-way split.  Non-trivial: the string is neither fully consumed nor "
               "rejected at its first symbol." % maxlen)
    ev.assumptions = ["expressions regex_bytes refuses at construction for the documented multi-byte restriction are counted as unsupported",
                      "bounded repetition only of non-nullable atoms"]
    # the abstract two-octet symbol is instantiated as U+03C0 (pi) or as U+00E9 (e acute: inside the Latin-1 range)
    if ctx.quick:
        jobs = [(e["text"], strs, e["res"], ctx.seed + i, "π" if i % 2 == 0 else "é", e["sup"], e["cod"], True) for i, e in enumerate(exprs)]
    else:
        jobs = [(e["text"], strs, e["res"], ctx.seed + i, c, e["sup"], e["cod"]) for i, e in enumerate(exprs) for c in ("π", "é")]
        exprs = [e for e in exprs for _ in (0, 1)]
    results = core.pmap(_work, jobs, chunksize=2)
    unsupported = 0
    classes = {}
    drift, coded_checked = [], 0
    for (e, r), jb in zip(zip(exprs, results), jobs):
        unsupported += 0 if r["bytes_supported"] else 1
        drift += [(r["text"], d) for d in r["drift"]]
        coded_checked += r["coded_checked"]
        ev.evaluations += r["runs"]
        ev.impl += r["runs"]
        for idx, ((n, acc), syms) in enumerate(zip(e["res"], strs)):
            if len(jb) > 7 and jb[7] and len(syms) > 2 and (idx + jb[3]) % 4:
                continue              # (not run in the quick tier)
            if 0 < n < len(syms):
                ev.nontrivial.add(hash((e["text"], tuple(syms))))
        for p in r["problems"]:
            wild = "." in r["text"] or "[^" in r["text"]
            key = (p["m"], "multibyte-input" if p.get("multibyte_input") else "plain", "wildcard-or-negated-class" if wild else "literals-only")
            classes.setdefault(key, []).append((r["text"], p))
    for key, lst in sorted(classes.items()):
        print("  disagreement-class %s: %d (expression, string) pairs, e.g. %r on %s: want %s got %s" % (
            " ".join(key), len(lst), lst[0][0], lst[0][1].get("s"), lst[0][1].get("want"), lst[0][1].get("got")))
    for key, lst in sorted(classes.items()):
        for text, p in lst:
            rec = {"regex": text, "problem": p, "machine": p["m"], "multibyte_input": bool(p.get("multibyte_input")),
                   "partial_symbol_then_reject": bool(p.get("f10")), "wildcard": key[2] == "wildcard-or-negated-class", "consistent": bool(p.get("consistent")),
                   "conforms_to_coded_translation": bool(p.get("coded")),
                   "class": "-".join(key)}
            ctx.violation("regex_" + "_".join(key), rec, what="regex %r (%s machine) on %r in chunks %s: oracle (consumed, accept) = %s, machine (sent, stored, terminal, exc) = %s" % (
                text, p["m"], "".join(SYM[c] for c in (p.get("s") or [])), p.get("chunks"), p.get("want"), p.get("got")))
    if drift:
        print("  SPEC-DRIFT: %d (expression, string) pairs satisfy the property but differ from the coded-translation model (RegexBytes.tla), e.g. %r: %s" % (
            len(drift), drift[0][0], drift[0][1]))
    ev.extra.update({"coded_translation_cases": coded_checked, "coded_translation_drift": len(drift)})
    ev.sample({"regex": exprs[len(exprs) // 2]["text"], "strings": ["".join(SYM[c] for c in s) for s in strs[20:26]],
               "expected_consumed_accept": exprs[len(exprs) // 2]["res"][20:26]})
    ev.exhaustive = True
    ev.extra.update({"expressions": len(exprs), "strings": len(strs), "bytes_unsupported_expressions": unsupported})


def replay(ctx, path):
    rec = json.load(open(path))
    print(json.dumps(rec, indent=1)[:1500])
    return 1
