"""C13 -- under any connection fault the client never pairs a reply with the wrong request.

M: spec/Client.tla UnderFault: the results an application may observe when the connection is cut are a correct prefix of the
   sequential results, never extend beyond the operations whose replies were completely delivered, and a shortfall is
   signalled by an error.
R: for operation lists emitted by TLC (MC_Client) the real connector runs against a live simulator thread through a relay: a
   reference run records the server-to-client octet stream and the frame boundaries; then the same exchange is repeated with
   the stream cut after exactly k octets for every k (all offsets in thorough; every frame boundary, the header / length
   field offsets and every 3rd offset in quick), with the client-to-server stream cut at sampled offsets, and with all
   replies swallowed (timeout) -- in synchronous, pipelined and bundled modes.
V: TLC (ClientTrace) judges every run.  The proxy layer (get_attribute.proxy) is then checked to discard the failed
   connection: the next read reconnects (a new gateway object) and returns the tag model's values.
"""
import json
import os
import random

from .. import core, tlc, clientlib
from . import C12

LEVEL = "fault_enumeration"
MODES = [(0, 0, False), (2, 0, False), (5, 0, True), (1, 100, False), (0, 4000, False)]


def frame_ends(stream):
    ends, at = [], 0
    while at + 24 <= len(stream):
        ln = stream[at + 2] + 256 * stream[at + 3]
        at += 24 + ln
        if at <= len(stream):
            ends.append(at)
    return ends


def faulted(job):
    """reference run + cut runs for one (list, mode); returns trace lines"""
    from .. import clientlib
    cfg, mem0, lst, mode, cuts_spec, seed = job
    rng = random.Random(seed)
    ref = clientlib.run_client((cfg, mem0, lst, mode, [0], {"ref": True}))
    out = [dict(ref, role="reference")]
    if ref["exc"] or len(ref["obs"]) != len(lst):
        return out
    stream = ref["s2c"]
    ends = frame_ends(stream)           # ends[0] = Register reply; ends[i] = i-th send's reply
    members = ref["members"]

    def delivered(k):
        n = 0
        for i, e in enumerate(ends[1:]):
            if e <= k and i < len(members):
                n += members[i]
        return n
    L = len(stream)
    if cuts_spec == "all":
        cuts = list(range(0, L))
    else:
        near = set()
        for e in [0] + ends:
            for d in (-1, 0, 1, 2, 3, 4, 23, 24, 25):
                if 0 <= e + d < L:
                    near.add(e + d)
        cuts = sorted(near | set(range(0, L, 3 if cuts_spec == "third" else 7)))
    for k in cuts:
        ln = clientlib.run_client((cfg, mem0, lst, mode, [0], {"cut_s2c": k}))
        ln["delivered"] = delivered(k)
        ln["role"] = "cut_s2c=%d" % k
        ln["at_boundary"] = k in ends
        out.append(ln)
    c2s_len = ref["c2s_len"]
    for k in sorted(set([0, 1, 24, 27, 28, c2s_len // 2, c2s_len - 1] + [rng.randrange(c2s_len) for _ in range(3)])):
        if 0 <= k < c2s_len:
            ln = clientlib.run_client((cfg, mem0, lst, mode, [0], {"cut_c2s": k}))
            ln["delivered"] = len(lst)          # whatever reply arrives completely may be used
            ln["role"] = "cut_c2s=%d" % k
            ln["at_boundary"] = False
            out.append(ln)
    # one whole reply frame is lost in transit and the connection continues: nothing after it may be paired and yielded
    for i in range(1, len(ends)):
        ln = clientlib.run_client((cfg, mem0, lst, mode, [0], {"drop_frame": i}))
        ln["delivered"] = sum(members[:i - 1])
        ln["role"] = "drop_frame=%d" % i
        ln["at_boundary"] = True
        out.append(ln)
    ln = clientlib.run_client((cfg, mem0, lst, mode, [0], {"silence": True}))
    ln["delivered"] = 0
    ln["role"] = "silence"
    ln["at_boundary"] = False
    out.append(ln)
    return out


def proxy_recovery(job):
    """the proxy layer discards a failed connection; its next use reconnects and returns correct data"""
    from cpppo.server.enip.get_attribute import proxy
    from .. import clientlib, live
    cfg, mem0, k, depth = job
    srv = clientlib.server(cfg)
    clientlib.wait_idle()
    srv.dev.set_mem(mem0)
    # k >= 0: cut after k octets; k < 0: stall after -k octets for longer than the client's timeout, then deliver late
    relay = live.Relay(srv.address, cut_s2c=k) if k >= 0 else live.Relay(srv.address, stall=(-k, 1.0))
    res = {"k": k, "depth": depth}
    try:
        from cpppo.server.enip import poll
        import time
        via = proxy(host=relay.address[0], port=relay.address[1], timeout=0.6, depth=depth, multiple=0, route_path=[{"port": 1, "link": 0}])

        def do_poll(params):
            try:
                _, _, results = poll.loop(via, cycle=.01, last_poll=0, params=params, pass_thru=True)
            except Exception as exc:
                return None, type(exc).__name__
            return [list(v) if v is not None else None for p, v in results], ""
        res["first"], res["first_exc"] = do_poll(["A[0-2]", "C_3[0-1]"])
        res["gateway_after_failure"] = via.gateway is not None
        time.sleep(0.6 if k < 0 else 0)          # the stalled replies of the first exchange arrive now
        second, res["second_exc"] = do_poll(["C_3[0-1]", "A[0-2]"])
        res["second"] = list(reversed(second)) if second is not None else None
        res["gateway_after_second"] = via.gateway is not None
        # further polls: the fault may have fallen into the second exchange (offset beyond the first poll's replies), and on a busy machine
        # an exchange may simply take longer than the client's 0.6 s timeout (a signalled shortfall, not a failure to recover): up to three more
        res["more"] = []
        while res["second"] is None and len(res["more"]) < 3 and not (res["more"] and res["more"][-1][0] is not None):
            time.sleep(0.6 if k < 0 else 0.05)
            v, exc = do_poll(["A[0-2]", "C_3[0-1]"])
            res["more"].append((v, exc, via.gateway is not None))
        if res["more"]:
            res["third"], res["third_exc"] = res["more"][-1][0], res["more"][-1][1]
        res["connections"] = relay.conns
        via.close_gateway()
    finally:
        relay.close()
    return res


def main(ctx):
    ev = ctx.ev
    wd = core.workdir()
    rng = random.Random(ctx.seed)
    got = C12.emit(ctx, wd, 1)
    if not got:
        return
    c, basis, _ = got
    cfg, mem0 = c["cfg"], c["mem0"]
    byt = {j["text"]: j for j in basis}
    fixed = [["A[1-2]=(INT)5,6", "A[0-2]", "C_3[0-1]=(DINT)8,9", "@153/1/2[0-1]"],
             ["A[0-2]", "A[2-4]", "A[1-2]=(INT)5,6", "A[1]", "Bb"],
             ["D[0-0]=(DINT)3", "@153/1/3[0]", "A[0-0]=(DINT)1", "A[0-2]"]]
    lists = [[{"r": byt[t]["r"], "text": t} for t in lst] for lst in fixed]
    if not ctx.quick:
        for _ in range(6):
            lists.append([{"r": j["r"], "text": j["text"]} for j in (rng.choice(basis) for _ in range(rng.randint(3, 6)))])
    ev.rule = ("cases: (operation list, mode, fault): 3 (9) lists of 4-6 operations x modes {synchronous, depth 2, depth 5 fragmented, "
               "bundles of ~2, one big bundle} x server-to-client cuts (every frame boundary, header and length-field offsets, "
               "every 3rd (quick: boundaries + every 7th for all but the first list) / every offset), client-to-server cuts, "
               "silence; proxy recovery after cuts.  Non-trivial: the cut falls after the first reply frame (some results are "
               "legitimately available) or exactly on a frame boundary.")
    ev.assumptions = ["a result is 'completely received' when the reply frame carrying it was delivered in full (bundle members: the bundle's frame)",
                      "timeouts of 0.6 s in fault runs; the relay closes both directions at the cut"]
    jobs = []
    for i, lst in enumerate(lists):
        for mode in (MODES if not ctx.quick else MODES[:4]):
            spec = "all" if not ctx.quick else ("third" if i == 0 else "seventh")
            jobs.append((cfg, mem0, lst, mode, spec, ctx.seed + i))
    groups = core.pmap(faulted, jobs, chunksize=1)
    lines = [ln for g in groups for ln in g]
    for g in groups:
        if g[0]["exc"] or len(g[0]["obs"]) != len(g[0]["ops"]):
            ctx.machinery.append("reference run failed: %s" % g[0]["exc"])
    for ln in lines:
        ev.case(key=(json.dumps(ln["ops"]), tuple(ln["setting"]), ln["role"]), nontrivial=ln["role"] != "reference" and (ln.get("at_boundary") or 0 < ln["delivered"]))
    ex = [ln for ln in lines if ln["role"].startswith("cut_s2c") and 0 < len(ln["obs"]) < len(ln["ops"])]
    if ex:
        ev.sample({"operations": len(ex[0]["ops"]), "mode": ex[0]["setting"], "fault": ex[0]["role"], "results_yielded": len(ex[0]["obs"]),
                   "delivered_complete": ex[0]["delivered"], "ended_with": ex[0]["exc"]})
    bad = C12.validate(ctx, lines, "C13")
    classes = {}
    for ln, why in bad:
        key = (why, "synchronous" if ln["setting"][0] == 0 else "pipelined", "at-frame-boundary" if ln.get("at_boundary") else "inside-frame")
        classes.setdefault(key, []).append(ln)
    for key in sorted(classes):
        print("  rejected-class %s x%d e.g. %s mode %s" % (" ".join(key), len(classes[key]), classes[key][0]["role"], classes[key][0]["setting"]))
        for ln in classes[key]:
            rec = {"why": key[0], "mode": key[1], "where": key[2], "synchronous": ln["setting"][0] == 0, "at_boundary": bool(ln.get("at_boundary")),
                   "ops": ln["ops"], "setting": ln["setting"], "fault": ln["role"], "obs": ln["obs"], "exc": ln["exc"], "delivered": ln["delivered"]}
            ctx.violation("fault_%s" % key[0], rec, what="client under fault %s (mode depth/multiple/fragment %s): %s: %d results for %d operations, %d completely delivered, ended with %r" % (
                ln["role"], ln["setting"], key[0], len(ln["obs"]), len(ln["ops"]), ln["delivered"], ln["exc"]))
    # proxy recovery
    pj = [(cfg, [[[1, 0], [2, 0], [3, 0]], [[0, 0]], [[4, 0, 0, 0], [5, 0, 0, 0]], [[0, 0, 0, 0]], [[0] * 8], [[]]], k, d)
          for k in [0, 10, 28, 29, 60, 72, 73, 100, 130, 150, 180, 200] + [-x for x in range(20, 240, 9)] for d in (1, 2)]
    for r in core.pmap(proxy_recovery, pj, chunksize=1):
        ev.case(key=("proxy", r["k"], r["depth"]), nontrivial=True)
        want = [[1, 2, 3], [4, 5]]
        # every poll returns the right values or raises; the fault is injected once, on the first connection: exactly one poll may
        # fail, the poll after it reconnects (failed connection discarded) and returns its own values
        polls = [(r["first"], r["gateway_after_failure"]), (r["second"], r["gateway_after_second"])] + [(v, kept) for v, exc, kept in r.get("more", [])]
        # every poll returns the right values or raises (never wrong values); a failed poll discards its connection; the fault is injected
        # once, on the first connection: the proxy recovers -- the last poll returns its values -- and every failed poll cost one connection
        ok = all(v is None or v == want for v, _ in polls) and polls[-1][0] == want
        fails = sum(1 for v, _ in polls if v is None)
        if r["connections"] != 1 + fails:
            ok = False
        if any(v is None and kept for v, kept in polls):
            ok = False                       # the failed connection must be discarded
        if not ok:
            ctx.violation("proxy_recovery", {"proxy": r}, what="proxy after a cut at %d (depth %d): first %s (%s), second %s (%s), third %s (%s), gateway kept %s, connections %s" % (
                r["k"], r["depth"], r["first"], r["first_exc"], r["second"], r["second_exc"], r.get("third"), r.get("third_exc"), r["gateway_after_failure"], r["connections"]))
    # the polling driver (poll.run / poll.loop) as a state machine (spec/PollRun.tla): every pattern of poll successes and failures of
    # 1..7 polls; TLC checks BackoffBounds, NeverBusy, Cadence, GrowsThenResets and emits when each attempt happens and how many
    # failures are reported; the real driver runs each pattern over a virtual clock with a scripted proxy
    cfgp = os.path.join(wd, "pollrun.cfg")
    tlc.write_cfg(cfgp, ["SPECIFICATION Spec", "INVARIANT BackoffBounds", "INVARIANT NeverBusy", "INVARIANT Cadence", "PROPERTY GrowsThenResets",
                         "CONSTRAINT Emit", "CHECK_DEADLOCK FALSE", "CONSTANTS", " Cycle = 32", " BMin = 32", " BMax = 320", " Patterns <- AllPatterns"])
    rp = ctx.tlc("poll-driver", "MC_PollRun", cfgp, spec_dir=wd, timeout=600, workers=4)
    pats = [j for j in rp.json if j.get("k") == "poll"]
    if not pats:
        ctx.machinery.append("no poll patterns from PollRun")
        return
    for j, r in zip(pats, core.pmap(clientlib.poll_run_probe, pats, chunksize=16)):
        ev.case(key=("pollrun", json.dumps(j["pat"])), nontrivial=not all(j["pat"]))
        if not r["exact"] or r["at"] != j["at"] or r["fails"] != j["fails"] or r["results"] != sum(1 for x in j["pat"] if x):
            ctx.violation("poll_driver", {"pattern": j, "got": r},
                          what="poll.run with polls %s: attempts at %s /32 s, %d failures reported, %d results processed; the specification says attempts at %s, %d failures, %d results" % (
                              "".join("S" if x else "F" for x in j["pat"]), r["at"], r["fails"], r["results"], j["at"], j["fails"], sum(1 for x in j["pat"] if x)))
    ev.extra.update({"runs": len(lines), "proxy_recovery_cases": len(pj), "poll_driver_patterns": len(pats)})


def replay(ctx, path):
    rec = json.load(open(path))
    print(json.dumps(rec)[:1500])
    return 1
