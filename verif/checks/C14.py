"""C14 -- independent Logix client implementations interoperate with the simulator.

V: pylogix (shares no code with cpppo) drives a live simulator thread: register, (Large) Forward Open, connected reads and
   writes of scalars and arrays of INT / DINT / SINT / REAL / LINT, a 600-element array (pylogix's own fragment loop),
   multi-tag reads (Multiple Service Packet), out-of-range and unknown tags, Close (Forward Close + Unregister).  The
   operation lists are emitted by TLC (MC_Interop); the recorded (operation, value, status) sequences are validated by TLC
   (ClientTrace) against the tag model of LogixOps: values exact, statuses mapped by a fixed table.
R: request frames encoded octet by octet by the spec (Register, SendRRData with bare and Unconnected-Send-wrapped reads /
   writes, (Large) Forward Open, SendUnitData with sequence counts, Forward Close) are written raw to a TCP socket of the live simulator; the reply frames are validated by TLC (ServerTrace)
   with the spec's decoder and must carry the tag model's values.  No cpppo code is on the checking side.
"""
import json
import os
import random
import socket
import tempfile

from .. import core, tlc
from . import C12

LEVEL = "model_checking"
STATUS = {"Success": 0, "Path destination unknown": 5, "Partial transfer": 6, "Connection failure": 1,
          "Path segment error": 4, "Service not supported": 8}


def status_code(text):
    if text in STATUS:
        return STATUS[text]
    if text.startswith("Unknown error"):
        try:
            return int(text.split()[-1])
        except ValueError:
            return 254
    return 254


def tagname(cfg, r):
    if r["tag"] == 0:
        return "NOPE"
    name = bytes(bytearray(cfg["tags"][r["tag"] - 1]["name"])).decode("ascii")
    return name if r["idx"] < 0 else "%s[%d]" % (name, r["idx"])


def run_pylogix(job):
    import pylogix
    from .. import clientlib, sim
    cfg, mem0, ops, multi = job[:4]
    route, bystander = (job[4], job[5]) if len(job) > 4 else (None, None)
    srv = clientlib.server(dict(cfg, budget=488))
    clientlib.wait_idle()
    srv.dev.set_mem(mem0)
    comm = pylogix.PLC()
    comm.IPAddress, comm.Port = srv.address[0], srv.address[1]
    comm.SocketTimeout = 5.0
    comm.StringEncoding = "iso-8859-1"        # (short strings are ISO-8859-1 characters on both sides)
    if route:
        comm.Route = [tuple(x) for x in route]          # a multi-hop connection path (backplane / network hops before the controller)
    obs, exc = [], ""

    def ob(r, res):
        st = status_code(res.Status)
        t = cfg["tags"][r["tag"] - 1]["type"] if r["tag"] else "INT"
        if st != 0:
            return {"st": st, "ext": [65535], "vals": [], "ok": False, "bytes": [], "exact5": r["tag"] == 0}
        if r["svc"] == "write":
            return {"st": 0, "ext": [], "vals": [], "ok": True, "bytes": [], "exact5": False}
        v = res.Value if isinstance(res.Value, list) else [res.Value]
        return {"st": 0, "ext": [], "vals": [sim.enc_elem(t, x) for x in v], "ok": True, "bytes": [], "exact5": False}
    try:
        i = 0
        while i < len(ops):
            r = ops[i]
            if bystander is not None and i == bystander[0]:
                # another client of the same host registers, opens a connection and drops its socket without closing anything
                s2 = socket.create_connection(srv.address, timeout=5)
                try:
                    for fb in bystander[1]:
                        s2.sendall(bytes(bytearray(fb)))
                        s2.settimeout(2)
                        try:
                            s2.recv(4096)
                        except socket.timeout:
                            pass
                finally:
                    s2.close()
                import time
                time.sleep(0.1)
            group = []
            if multi:
                j = i
                while j < len(ops) and ops[j]["svc"] == "read" and ops[j]["n"] == 1 and ops[j]["tag"] != 0:
                    group.append(ops[j])
                    j += 1
            if len(group) >= 2:
                res = comm.Read([tagname(cfg, g) for g in group])
                for g, x in zip(group, res):
                    obs.append(ob(g, x))
                i += len(group)
                continue
            if r["svc"] == "read":
                res = comm.Read(tagname(cfg, r), r["n"]) if r["n"] > 1 else comm.Read(tagname(cfg, r))
            else:
                t = r["typ"]
                vals = [sim.dec_elem(t, v) for v in r["vals"]]
                res = comm.Write(tagname(cfg, r), vals if len(vals) > 1 else vals[0])
            obs.append(ob(r, res))
            i += 1
    except Exception as e:
        exc = repr(e)
    finally:
        try:
            comm.Close()
        except Exception as e:
            exc = exc or "Close: %r" % e
    return {"cfg": cfg, "mem0": mem0, "ops": ops, "frag": False, "obs": obs, "fault": False, "delivered": len(ops), "raised": bool(exc),
            "mixed": False, "final": srv.dev.get_mem(), "setting": ["pylogix", multi], "pattern": [0], "exc": exc, "sends": 0}


def run_lists(job):
    """the cpppo client's List Identity / Services / Interfaces requests against the live simulator: the parsed replies are the
    simulator's identity and service as the specification states them (ServerOps!SimIdentity, SimServices)"""
    from cpppo.server.enip import client
    from .. import clientlib
    cfg, want = job
    srv = clientlib.server(dict(cfg, budget=488))
    clientlib.wait_idle()
    out = []
    idt, svc = want["identity"], want["services"]
    exp = {"list_identity": {"version": idt["version"], "sin_family": idt["family"], "sin_port": idt["port"], "sin_addr": ".".join(str(o) for o in idt["addr"]),
                             "vendor_id": idt["vendor"], "device_type": idt["devtype"], "product_code": idt["product"], "product_revision": idt["revision"],
                             "status_word": idt["status"], "serial_number": int.from_bytes(bytes(bytearray(idt["serial"])), "little"),
                             "product_name": bytes(bytearray(idt["name"])).decode("iso-8859-1"), "state": idt["state"]},
           "list_services": {"version": svc["version"], "capability": svc["capability"], "service_name": bytes(bytearray(svc["name"])).decode("iso-8859-1")}}
    try:
        with client.connector(host=srv.address[0], port=srv.address[1], timeout=5.0) as conn:
            for meth, key in (("list_identity", "identity_object"), ("list_services", "communications_service"), ("list_interfaces", None), ("list_identity", "identity_object")):
                getattr(conn, meth)(timeout=5.0)
                rsp, ela = client.await_response(conn, timeout=5.0)
                if rsp is None:
                    out.append("%s: no reply" % meth)
                    continue
                cpf = rsp.enip.CIP[meth].CPF
                if key is None:
                    if cpf.get("count", len(cpf.get("item") or [])) != 0:
                        out.append("list_interfaces: %r" % dict(cpf))
                    continue
                items = cpf.get("item") or []
                got = dict(items[0][key]) if len(items) == 1 and key in items[0] else {}
                bad = {k: (got.get(k), v) for k, v in exp[meth].items() if got.get(k) != v}
                if bad:
                    out.append("%s: (got, specified) %r" % (meth, bad))
    except Exception as exc:
        out.append("exception %r" % exc)
    return out


def run_raw(job):
    """spec-encoded frames written raw to the live simulator; replies collected by length-prefixed framing"""
    from .. import clientlib, vsock
    cfg, mem0, frames = job
    srv = clientlib.server(dict(cfg, budget=488))
    clientlib.wait_idle()
    srv.dev.set_mem(mem0)
    ev = []
    s = socket.create_connection(srv.address, timeout=5)
    me = s.getsockname()
    try:
        total = sum(len(f["fb"]) for f in frames)
        ev.append({"a": "recv", "n": total})
        buf = b""
        ended = False
        for i, f in enumerate(frames, start=1):
            if ended:
                break                  # the server ended the session (error status): the remaining frames are never processed
            try:
                s.sendall(bytes(bytearray(f["fb"])))
            except OSError:
                break
            ev.append({"a": "proc", "i": i})
            while True:
                if len(buf) >= 24 and len(buf) >= 24 + buf[2] + 256 * buf[3]:
                    n = 24 + buf[2] + 256 * buf[3]
                    ev.append({"a": "send", "b": list(buf[:n]), "conns": vsock.open_connections(me)})
                    ended = buf[8:12] != b"\0\0\0\0"
                    buf = buf[n:]
                    break
                try:
                    d = s.recv(4096)
                except socket.timeout:
                    d = b""
                if not d:
                    break
                buf += d
        try:
            s.shutdown(socket.SHUT_WR)
        except OSError:
            pass                       # the server has already closed (after an error status)
        s.settimeout(2)
        try:
            while s.recv(4096):
                pass
        except (socket.timeout, OSError):
            pass
        ev.append({"a": "eof"})
        ev.append({"a": "close"})
    finally:
        s.close()
    clientlib.wait_idle()
    ev.append({"a": "conns-left", "n": len(vsock.open_connections(me))})
    sc = {"cfg": dict(cfg, budget=488), "pers": {"k": "any"}, "mem0": mem0, "frames": [f["f"] for f in frames]}
    return {"sc": sc, "ev": ev, "final": srv.dev.get_mem(), "others": True, "acc": 0, "sizes": [len(f["fb"]) for f in frames]}


def main(ctx):
    from .. import serverlib
    ev = ctx.ev
    wd = core.workdir()
    rng = random.Random(ctx.seed)
    cfgp = os.path.join(wd, "interop.cfg")
    tlc.write_cfg(cfgp, ["INIT LInit", "NEXT LNext", "CONSTRAINT LEmit", "CHECK_DEADLOCK FALSE"])
    res = tlc.run("MC_Interop", cfgp, spec_dir=wd, timeout=1700, workers=4)
    ev.tlc("lists", res)
    c = [j for j in res.json if j.get("k") == "cfg"]
    basis = [j["r"] for j in res.json if j.get("k") == "op"]
    lists = [j["ops"] for j in res.json if j.get("k") == "list"]
    raws = [j for j in res.json if j.get("k") == "raw"]
    rawreg = [j for j in res.json if j.get("k") == "rawreg"]
    if not c or not basis or not raws or not rawreg or len(lists) != res.distinct:
        ctx.machinery.append("interop emission incomplete")
        return
    cfg, mem0 = c[0]["cfg"], c[0]["mem0"]
    lw = [j for j in res.json if j.get("k") == "lists"]
    if not lw:
        ctx.machinery.append("no identity / services record emitted")
        return
    for prob in core.in_child(run_lists, (cfg, lw[0])):      # (in a child: the main process must not own a live simulator when it forks its workers)
        ctx.violation("client_list_requests", {"lists": True, "problem": prob, "specified": lw[0]}, what="cpppo client List* request: " + prob)
    ev.case(key=("lists",), nontrivial=True)
    ev.rule = ("cases: pylogix sessions: every list of <= 2 operations over a 20-operation basis (sampled in quick) plus random "
               "sessions of 5-10 operations with multi-tag reads; raw sessions: Register followed by 1-3 spec-encoded SendRRData "
               "frames (bare and Unconnected-Send-wrapped).  Non-trivial: the session contains a write followed by a read, an "
               "array read larger than one reply, a multi-tag read or a refused operation.")
    ev.assumptions = ["pylogix status strings mapped by a fixed table (Success=0, Path destination unknown=5, 'Unknown error N'=N); pylogix does not expose extended status",
                      "pylogix learns a tag's type with a one-element read before its first write (reads do not change the tag model)"]
    if ctx.quick:
        lists = rng.sample(lists, 250)
    longer = [[rng.choice(basis) for _ in range(rng.randint(5, 10))] for _ in range(40 if ctx.quick else 150)]
    jobs = [(cfg, mem0, lst, False) for lst in lists] + [(cfg, mem0, lst, True) for lst in longer]
    # multi-tag reads in which one-octet (odd-sized) replies are followed by others
    small = [r for r in basis if r["svc"] == "read" and r["n"] == 1 and r["tag"] != 0]
    odd = [r for r in small if r["typ"] == "SINT"]
    for n in range(8 if ctx.quick else 60):
        lst = [rng.choice(odd), rng.choice(small), rng.choice(odd), rng.choice(small), rng.choice(small)]
        rng.shuffle(lst)
        jobs.append((cfg, mem0, [rng.choice(basis)] + lst, True))
    # multi-hop connection paths, and a second client of the same host that vanishes while the session is open
    unknown = [r for r in basis if r["tag"] == 0]
    rconn0 = [j for j in res.json if j.get("k") == "rawconn" and j["f"]["kind"] == "fwdopen"]
    routes = [[(1, 2), (2, 7)], [(1, 2), (2, "10.0.0.5"), (1, 0)], [(1, 0)]]
    for n in range(9 if ctx.quick else 60):
        lst = [rng.choice(basis) for _ in range(rng.randint(3, 6))] + unknown[:1] + [rng.choice(basis)]
        jobs.append((cfg, mem0, lst, bool(n % 2), routes[n % 3], None))
    if rawreg and rconn0 and unknown:
        for n in range(6 if ctx.quick else 40):
            lst = [rng.choice(basis) for _ in range(rng.randint(2, 4))]
            at = len(lst)
            lst = lst + unknown[:1] + [rng.choice(basis), rng.choice(basis)]
            jobs.append((cfg, mem0, lst, False, None, [at, [rawreg[0]["fb"], rng.choice(rconn0)["fb"]]]))
    lines = core.pmap(run_pylogix, jobs, chunksize=4)
    for ln in lines:
        nt = any(r["svc"] == "write" for r in ln["ops"]) and any(r["svc"] == "read" for r in ln["ops"]) or any(r["n"] >= 300 or r["tag"] == 0 or r["idx"] + r["n"] > 600 for r in ln["ops"])
        ev.case(key=(json.dumps(ln["ops"]), ln["setting"][1]), nontrivial=nt)
        if ln["exc"]:
            ctx.violation("pylogix_exception", {"ops": ln["ops"], "exc": ln["exc"]}, what="pylogix session raised %s" % ln["exc"][:200])
    ln = lines[-1]
    ev.sample({"pylogix_session": [{"op": r["svc"], "tag": tagname(cfg, r), "n": r["n"]} for r in ln["ops"]],
               "observed": [{"st": o["st"], "values": len(o["vals"])} for o in ln["obs"]]})
    bad = C12.validate(ctx, [x for x in lines if not x["exc"]], "pylogix")
    for ln, why in bad:
        ctx.violation("pylogix_%s" % why, {"why": why, "ops": ln["ops"], "obs": [dict(o, vals=o["vals"][:8]) for o in ln["obs"]], "multi": ln["setting"][1]},
                      what="pylogix session %s: %s: observed %s" % ([tagname(cfg, r) + ("=" if r["svc"] == "write" else "") for r in ln["ops"]], why,
                                                                  json.dumps([dict(o, vals=o["vals"][:6]) for o in ln["obs"]])[:300]))
    # raw frames by the reference encoder
    rjobs = []
    for _ in range(150 if ctx.quick else 600):
        fs = [rawreg[0]] + [rng.choice(raws) for _ in range(rng.randint(1, 3))]
        rjobs.append((cfg, mem0, fs))
    rconn = [j for j in res.json if j.get("k") == "rawconn"]
    runit = [j for j in res.json if j.get("k") == "rawunit"]
    if not rconn or not runit:
        ctx.machinery.append("connected raw frames not emitted")
        return
    opens = [j for j in rconn if j["f"]["kind"] == "fwdopen"]
    for _ in range(150 if ctx.quick else 600):
        o = rng.choice(opens)
        fs = [rawreg[0], o]
        for _ in range(rng.randint(1, 4)):
            fs.append(rng.choice(runit + runit + opens + raws))
        if rng.random() < 0.7:
            fs.append(next(j for j in rconn if j["f"]["kind"] == "fwdclose" and j["f"]["fo"]["serial"] == o["f"]["fo"]["serial"]))
            if rng.random() < 0.5:
                fs.append(rng.choice(runit))
        rjobs.append((cfg, mem0, fs))
    rlines = core.pmap(run_raw, rjobs, chunksize=4)
    for ln in rlines:
        ev.case(key=json.dumps(ln["sizes"]) + json.dumps([f["kind"] + f["req"]["svc"] for f in ln["sc"]["frames"]]), nontrivial=len(ln["sc"]["frames"]) > 2)
    ev.sample({"raw_session": [f["kind"] + ":" + f["req"]["svc"] + ":" + f["wrap"] for f in rlines[0]["sc"]["frames"]],
               "events": [{k: (v if k != "b" else v[:44]) for k, v in e.items()} for e in rlines[0]["ev"]]})
    ev.sample({"raw_connected_session": [f["kind"] + ":" + f["req"]["svc"] for f in rlines[-1]["sc"]["frames"]],
               "events": [{k: (v if k != "b" else v[:50]) for k, v in e.items()} for e in rlines[-1]["ev"]]})
    bad = serverlib.validate(ctx, rlines, "raw")
    serverlib.report(ctx, bad, "C14raw")
    ev.extra.update({"pylogix_sessions": len(lines), "raw_sessions": len(rlines)})


def replay(ctx, path):
    rec = json.load(open(path))
    print(json.dumps(rec)[:1500])
    return 1
