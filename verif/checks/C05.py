"""C05 -- invalid requests are refused without side effects; accepted writes stay readable.

Same machinery as C03 (see there) but over the whole request catalogue: indices / counts / offsets at len-1, len,
len+1, zero counts, every request type against every tag type (narrower, wider, sign-flipped, float, BOOL, string),
values at and beyond the tag type's range, unknown tags.  The spec (Logix!WriteOuts/ReadOuts) fixes 0xFF/0x2105 and
0xFF/0x2107 where the statement does, requires `memory unchanged' for every refusal, and accepts a cross-type write
only if every value is representable in the tag's type; the memory projection after each step makes an
unrepresentable stored value (a tag that can no longer be read) a rejected step.
"""
import json

from . import C03

LEVEL = "model_checking"


def everything(r, cfg):
    return True


def main(ctx):
    C03.main(ctx, selector=everything, label="C05", deep_mems=50)       # (the whole catalogue is ~3x C03's: keeps the thorough tier near an hour)
    ctx.ev.rule = ctx.ev.rule + "  (C05: whole catalogue including out-of-bounds, cross-type and unknown-tag requests.)"


replay = C03.replay
