"""C01 -- wire codec round trip over the EtherNet/IP CIP message grammar.

M: spec/CIPWire.tla is the independent encoder (layout tables as TLA+ operators); TLC evaluates it over a bounded domain
   of every sub-grammar (MC_Wire: EPATH with every segment kind and width boundary, status with 0..3 extended words,
   typed data of all 13 scalar/string types at their range boundaries, every Logix / attribute service request and
   every reply the tag model allows, Multiple Service Packets, Unconnected Send wrappers, complete frames of each
   command) and checks the layout laws on each message: even EPATH, size octet = words, EPATH uniquely decodable
   (DecEPATH(EncEPATH(p)) = p), bundle offset law, Dec(Enc(bundle)) = members.
R: each emitted vector (fields + octets) is replayed into cpppo: produce(fields) must equal the spec's octets exactly;
   parse(octets) must reach a terminal state having consumed everything and recover every encoded field;
   produce(parse(octets)) must regenerate the octets.
"""
import json
import os

from .. import core, tlc

LEVEL = "model_checking"
KINDS = ["epath", "status", "typed", "logix", "ucsend", "frames", "fwd", "cpf"]


def _replay(v):
    """one vector -> list of problems (empty = conforms)"""
    import cpppo
    from cpppo.server.enip import parser, logix, device
    from .. import wirelib as W, sim
    k = v["k"]
    want = bytes(bytearray(v["b"]))
    out = []

    def same(label, got):
        if bytes(got) != want:
            out.append("%s: produced %s, layout tables say %s" % (label, bytes(got).hex(), want.hex()))

    def parsed(label, machine, octets, fields, ctx):
        data, sent, term, exc = W.run_parser(machine, octets)
        if exc or not term or sent != len(octets):
            out.append("%s: parse of %s ended exc=%s terminal=%s consumed=%d/%d" % (label, bytes(bytearray(octets)).hex(), exc, term, sent, len(octets)))
            return None
        got = data[ctx] if ctx else data
        d = W.subset(fields, got)
        if d:
            out.append("%s: parsed fields differ: %s" % (label, "; ".join(d[:4])))
        return got

    try:
        if k == "epath":
            p = W.path_py(v["segs"])
            same("EPATH.produce", parser.EPATH.produce(W.dd(p)))
            g = parsed("EPATH", parser.EPATH(terminal=True), v["b"], p, "EPATH")
            if g is not None:
                same("EPATH.produce(parse)", parser.EPATH.produce(g))
            wantp = bytes(bytearray(v["bp"]))
            if bytes(parser.EPATH_padded.produce(W.dd(p))) != wantp:
                out.append("EPATH_padded.produce differs")
            data, sent, term, exc = W.run_parser(parser.EPATH_padded(terminal=True), v["bp"])
            if exc or not term or sent != len(v["bp"]) or W.subset(p, data["EPATH_padded"]):
                out.append("EPATH_padded parse differs: %s %s" % (exc, W.subset(p, data.get("EPATH_padded", {}))[:2]))
            if v["bs"]:
                if bytes(parser.EPATH_single.produce(W.dd(p))) != bytes(bytearray(v["bs"])):
                    out.append("EPATH_single.produce differs")
                data, sent, term, exc = W.run_parser(parser.EPATH_single(terminal=True), v["bs"])
                if exc or not term or sent != len(v["bs"]) or W.subset(p, data["EPATH_single"]):
                    out.append("EPATH_single parse differs: %s" % exc)
        elif k == "status":
            m = {"status": v["st"], "status_ext": {"size": len(v["ext"]), "data": list(v["ext"])}}
            same("status.produce", parser.status.produce(W.dd(m)))
            data, sent, term, exc = W.run_parser(parser.status(terminal=True), v["b"])
            chk = {"status": v["st"], "status_ext": {"size": len(v["ext"])}}
            if v["ext"]:
                chk["status_ext"]["data"] = list(v["ext"])
            if exc or not term or sent != len(v["b"]) or W.subset(chk, data):
                out.append("status parse differs: %s %s" % (exc, W.subset(chk, data)[:3]))
            else:
                same("status.produce(parse)", parser.status.produce(data))
        elif k == "typed":
            t = v["t"]
            vals = [sim.dec_elem(t, x) for x in v["vals"]]
            m = W.dd({"data": vals})
            if t == "BOOL":         # canonical BOOL is 0x00 / 0xFF; other non-zero octets are accepted on input only
                want = bytes(bytearray(0 if x == [0] else 255 for x in v["vals"]))
            same("typed_data.produce", parser.typed_data.produce(m, tag_type=v["code"]))
            if vals:
                data, sent, term, exc = W.run_parser(parser.typed_data(tag_type=v["code"], context="td", terminal=True), v["b"])
                canon = [sim.dec_elem(t, sim.enc_elem(t, x)) for x in vals]
                if exc or not term or sent != len(v["b"]) or W.subset({"data": canon}, data.get("td", {})):
                    out.append("typed_data(%s) parse differs: %s %s" % (t, exc, W.subset({"data": canon}, data.get("td", {}))[:3]))
                else:
                    canonb = b"".join(bytes(bytearray(sim.enc_elem(t, x))) if t not in ("SSTRING", "STRING") else b"" for x in canon)
                    again = parser.typed_data.produce(data["td"], tag_type=v["code"])
                    if t == "BOOL":
                        pass            # BOOL is canonically 0x00 / 0xFF: non-canonical octets are not regenerated
                    elif bytes(again) != want:
                        out.append("typed_data(%s).produce(parse) differs" % t)
        elif k == "struct":
            m = W.dd({"structure_tag": v["handle"], "data": {"input": bytearray(v["raw"])}})
            same("typed_data.produce(STRUCT)", parser.typed_data.produce(m, tag_type=0x02A0))
            # (a handle without any record octets is, like a typed-data field of zero elements, produced but not parsed)
            data, sent, term, exc = W.run_parser(parser.typed_data(tag_type=0x02A0, context="td", terminal=True), v["b"]) if v["raw"] else ({}, len(v["b"]), True, "")
            td = data.get("td", {}) if v["raw"] else {"structure_tag": v["handle"]}
            if exc or not term or sent != len(v["b"]) or td.get("structure_tag") != v["handle"] \
               or bytes(bytearray(td.get("data.input") or b"")) != bytes(bytearray(v["raw"])):
                out.append("typed_data(STRUCT) parse differs: %s %r" % (exc, dict(td)))
            elif v["raw"]:
                same("typed_data.produce(parse STRUCT)", parser.typed_data.produce(td, tag_type=0x02A0))
        elif k in ("lreq", "lrpy", "msp"):
            cfg = v["cfg"]
            if k == "lreq":
                m = W.lreq_py(cfg, v["r"])
                same("Logix.produce(request)", logix.Logix.produce(W.dd(m)))
            elif k == "lrpy":
                m = W.lrpy_py(cfg, v["r"], v["o"], v["t"])
                same("Logix.produce(reply)", logix.Logix.produce(W.dd(m)))
            else:
                m = W.lreq_py(cfg, {"svc": "multi", "ms": v["ms"]})
                same("Logix.produce(bundle)", logix.Logix.produce(W.dd(m)))
            device.lookup_reset()
            obj = logix.Logix(instance_id=1)
            chk = dict(m)
            if k == "lrpy" and m.get("status") in (0, 6):
                chk.pop("status_ext", None)
            if k == "msp":
                chk = {"service": 0x0A}
            parsed("Logix.parser (first)", obj.parser, v["b"], chk, None)
            g = parsed("Logix.parser (same parser again)", obj.parser, v["b"], chk, None)
            if g is not None and k != "msp":
                same("Logix.produce(parse)", logix.Logix.produce(g))
            if k == "msp":
                # the reply side: members located by the offset table
                data, sent, term, exc = W.run_parser(obj.parser, v["rpy"])
                if exc or not term or sent != len(v["rpy"]):
                    out.append("bundle reply parse: %s" % exc)
                else:
                    got = [bytes(bytearray(r.input)) if "input" in r else None for r in data.multiple.request]
                    wantm = [bytes(bytearray(x)) for x in v["rb"]]
                    if got != wantm:
                        out.append("bundle reply members located differently: %r != %r" % (got, wantm))
        elif k == "fwd":
            f = v["f"]
            u32 = lambda b: int.from_bytes(bytes(bytearray(b)), "little")

            def side(c):
                return {"connection_ID": u32(c["id"]), "RPI": u32(c["rpi"]), "size": c["size"], "variable": c["variable"],
                        "priority": c["priority"], "type": c["type"], "redundant": c["redundant"]}
            fo = {"priority_time_tick": f["prio"], "timeout_ticks": f["ticks"], "O_T": side(f["ot"]), "T_O": side(f["to"]),
                  "connection_serial": f["serial"], "O_vendor": f["vendor"], "O_serial": u32(f["oserial"]),
                  "connection_timeout_multiplier": f["mult"], "transport_class_triggers": f["trigger"],
                  "connection_path": W.path_py(f["cpath"])}
            m = {"path": {"segment": [{"class": 6}, {"instance": 1}]}, "forward_open": fo}
            CM = device.Connection_Manager
            same("Connection_Manager.produce(forward open)", CM.produce(W.dd(m)))
            device.lookup_reset()
            cm = CM(instance_id=1)
            chk = {"service": 0x5B if v["large"] else 0x54, "forward_open": {k2: x for k2, x in fo.items() if k2 not in ("O_T", "T_O")}}
            chk["forward_open"]["O_T"] = dict(side(f["ot"]), large=v["large"])
            chk["forward_open"]["T_O"] = dict(side(f["to"]), large=v["large"])
            g = parsed("Connection_Manager.parser(forward open)", cm.parser, v["b"], chk, None)
            if g is not None:
                same("Connection_Manager.produce(parse)", CM.produce(g))
            # replies and forward close: parse, recover the identifying fields, regenerate
            ids = {"connection_serial": f["serial"], "O_vendor": f["vendor"], "O_serial": u32(f["oserial"])}
            for label, octs, chk2 in (
                    ("forward open reply", v["rpy"], {"status": 0, "forward_open": dict(ids, O_T={"connection_ID": u32(f["ot"]["id"]), "API": 1000000},
                                                                                         T_O={"connection_ID": u32(f["to"]["id"]), "API": 2000000})}),
                    ("forward open failure", v["fail"], {"status": 1, "status_ext": {"size": 1, "data": [256]}, "forward_open": ids}),
                    ("forward close", v["close"], {"service": 0x4E, "forward_close": dict(ids, priority_time_tick=f["prio"], timeout_ticks=f["ticks"],
                                                                                             connection_path=W.path_py(f["cpath"]))}),
                    ("forward close reply", v["closerpy"], {"status": 0, "forward_close": ids})):
                want = bytes(bytearray(octs))
                g2 = parsed(label, cm.parser, octs, chk2, None)
                if g2 is not None:
                    same(label + " produce(parse)", CM.produce(g2))
            for x in v.get("failrp", []):
                want = bytes(bytearray(x["b"]))
                mk = {"service": 0xDB if v["large"] else 0xD4, "status": 1, "status_ext": {"size": 1, "data": [785]},
                      "forward_open": dict(ids, remaining_path_size=x["rps"])}
                same("forward open failure with remaining path size %d produce(fields)" % x["rps"], CM.produce(W.dd(mk)))
                g4 = parsed("forward open failure with remaining path size %d" % x["rps"], cm.parser, x["b"], {"status": 1, "forward_open": dict(ids, remaining_path_size=x["rps"])}, None)
                if g4 is not None:
                    same("forward open failure with remaining path size produce(parse)", CM.produce(g4))
            # replies carrying application reply data of 1..4 octets (an odd length is padded to a whole word)
            for a in v["apps"][:: (1 if f["serial"] == 1 else 3)]:
                app = list(a["app"])
                for label, octs, mk in (
                        ("forward open reply + application data", a["rpy"], {"service": 0xDB if v["large"] else 0xD4, "status": 0, "forward_open": dict(
                            ids, O_T={"connection_ID": u32(f["ot"]["id"]), "API": 1000000}, T_O={"connection_ID": u32(f["to"]["id"]), "API": 2000000},
                            application={"data": app})}),
                        ("forward close reply + application data", a["closerpy"], {"service": 0xCE, "status": 0, "forward_close": dict(ids, application={"data": app})})):
                    want = bytes(bytearray(octs))
                    same(label + " produce(fields)", CM.produce(W.dd(mk)))
                    key = "forward_open" if "forward_open" in mk else "forward_close"
                    g3 = parsed(label, cm.parser, octs, {"status": 0, key: ids}, None)
                    if g3 is not None:
                        got = list(g3[key].get("application.data") or [])
                        if got[:len(app)] != app or len(got) != len(app) + len(app) % 2:
                            out.append("%s: application data parsed as %r, sent %r" % (label, got, app))
                        same(label + " produce(parse)", CM.produce(g3))
        elif k == "ucsend":
            m = {"service": 0x52, "path": {"segment": [{"class": 6}, {"instance": 1}]}, "priority": v["prio"],
                 "timeout_ticks": v["ticks"], "request": {"input": bytearray(v["msg"])}, "route_path": W.path_py(v["route"])}
            same("unconnected_send.produce", parser.unconnected_send.produce(W.dd(m)))
            chk = {"service": 0x52, "priority": v["prio"], "timeout_ticks": v["ticks"], "length": len(v["msg"]),
                   "route_path": W.path_py(v["route"])}
            g = parsed("unconnected_send", parser.unconnected_send(terminal=True), v["b"], chk, "unconnected_send")
            if g is not None:
                if bytes(bytearray(g.request.input)) != bytes(bytearray(v["msg"])):
                    out.append("unconnected_send: embedded message differs")
                same("unconnected_send.produce(parse)", parser.unconnected_send.produce(g))
        elif k == "cpf":
            g = parsed("CPF", parser.CPF(terminal=True), v["b"], {}, "CPF")
            if g is not None:
                items = g.get("item") or []
                if (g.get("count", len(items)) if v["items"] else g.get("count", 0)) != len(v["items"]) or len(items) != len(v["items"]):
                    out.append("CPF: %d items parsed, %d encoded" % (len(items), len(v["items"])))
                else:
                    mine = []
                    for it, w in zip(items, v["items"]):
                        fields = {"type_id": w["type"]}
                        if w["kind"] == "raw":
                            if bytes(bytearray(it.get("input") or b"")) != bytes(bytearray(w["raw"])) or it.length != len(w["raw"]):
                                out.append("CPF: unrecognized item 0x%04x not kept as its octets" % w["type"])
                            fields["input"] = bytearray(w["raw"])
                        elif w["kind"] == "null":
                            if it.length != 0:
                                out.append("CPF: null address item with length %d" % it.length)
                        elif w["kind"] == "ucdata":
                            if bytes(bytearray(it.unconnected_send.request.input)) != bytes(bytearray(w["msg"])):
                                out.append("CPF: unconnected data item message differs")
                            fields["unconnected_send"] = {"request": {"input": bytearray(w["msg"])}}
                        elif w["kind"] == "connaddr":
                            if it.connection_ID.connection != int.from_bytes(bytes(bytearray(w["cid"])), "little"):
                                out.append("CPF: connection id differs")
                            fields["connection_ID"] = {"connection": int.from_bytes(bytes(bytearray(w["cid"])), "little")}
                        elif w["kind"] == "conndata":
                            if it.connection_data.sequence != w["seq"] or bytes(bytearray(it.connection_data.request.input)) != bytes(bytearray(w["msg"])):
                                out.append("CPF: connected data item differs")
                            fields["connection_data"] = {"sequence": w["seq"], "request": {"input": bytearray(w["msg"])}}
                        elif w["kind"] == "services":
                            chk = {"version": w["item"]["version"], "capability": w["item"]["capability"],
                                   "service_name": bytes(bytearray(w["item"]["name"])).decode("iso-8859-1")}
                            d = W.subset(chk, it.communications_service)
                            if d:
                                out.append("CPF: services item differs: %s" % d[:2])
                            fields["communications_service"] = chk
                        elif w["kind"] == "legacy":
                            x = w["item"]
                            chk = {"version": x["version"], "sin_family": x["family"], "sin_port": x["port"],
                                   "sin_addr": ".".join(str(o) for o in x["addr"]), "ip_address": bytes(bytearray(x["text"])).decode("ascii")}
                            d = W.subset(chk, it.legacy_CPF_0x0001)
                            if d:
                                out.append("CPF: legacy item differs: %s" % d[:2])
                            fields["legacy_CPF_0x0001"] = chk
                        mine.append(fields)
                    same("CPF.produce(parse)", parser.CPF.produce(g))
                    same("CPF.produce(fields)", parser.CPF.produce(W.dd({"item": mine} if mine else {"count": 0})))
        elif k == "frame":
            f = v["f"]
            data, sent, term, exc = W.run_parser(parser.enip_machine(context="enip", terminal=True), v["b"])
            hdr = {"command": f["cmd"], "length": len(f["payload"]), "session_handle": int.from_bytes(bytes(bytearray(f["sess"])), "little"),
                   "status": f["status"], "options": f["options"]}
            if exc or not term or sent != len(v["b"]) or W.subset(hdr, data.get("enip", {})):
                out.append("enip_machine parse differs: %s %s" % (exc, W.subset(hdr, data.get("enip", {}))[:3]))
            else:
                if bytes(bytearray(data.enip.sender_context.input)) != bytes(bytearray(f["ctx"])):
                    out.append("sender context differs")
                same("enip_encode(parse)", parser.enip_encode(data.enip))
                # command-specific payload through the CIP parser
                src = cpppo.peekable(bytes(bytearray(data.enip.get("input") or b"")))
                try:
                    with parser.CIP(terminal=True) as m:
                        for _ in m.run(source=src, data=data.enip):
                            pass
                    cip = data.enip.CIP
                    if f["kind"] == "register":
                        if W.subset({"register": {"protocol_version": 1, "options": 0}}, cip):
                            out.append("register fields differ")
                    elif f["kind"] == "identity":
                        it = f["item"]
                        chk = {"version": it["version"], "sin_family": it["family"], "sin_port": it["port"], "sin_addr": ".".join(str(o) for o in it["addr"]),
                               "vendor_id": it["vendor"], "device_type": it["devtype"], "product_code": it["product"], "product_revision": it["revision"],
                               "status_word": it["status"], "serial_number": int.from_bytes(bytes(bytearray(it["serial"])), "little"),
                               "product_name": bytes(bytearray(it["name"])).decode("iso-8859-1"), "state": it["state"]}
                        li = cip.list_identity.CPF
                        d = W.subset(chk, li.item[0].identity_object) if li.count == 1 and li.item[0].type_id == 0x0C else ["no identity item"]
                        if d:
                            out.append("identity item fields differ: %s" % d[:3])
                        # produce from the fields alone
                        mine = W.dd({"CPF": {"item": [{"type_id": 0x0C, "identity_object": chk}]}})
                        if bytes(parser.list_identity.produce(mine)) != bytes(bytearray(f["payload"])):
                            out.append("list_identity.produce(fields) = %s, layout tables say %s" % (bytes(parser.list_identity.produce(mine)).hex(), bytes(bytearray(f["payload"])).hex()))
                        # the socket address may also be given as a 32-bit number (network order): the same octets
                        asint = W.dd({"CPF": {"item": [{"type_id": 0x0C, "identity_object": dict(chk, sin_addr=int.from_bytes(bytes(bytearray(it["addr"])), "big"))}]}})
                        if bytes(parser.list_identity.produce(asint)) != bytes(bytearray(f["payload"])):
                            out.append("list_identity.produce(fields, address as a number) = %s, layout tables say %s" % (bytes(parser.list_identity.produce(asint)).hex(), bytes(bytearray(f["payload"])).hex()))
                    elif f["kind"] == "services":
                        it = f["item"]
                        chk = {"version": it["version"], "capability": it["capability"], "service_name": bytes(bytearray(it["name"])).decode("iso-8859-1")}
                        ls = cip.list_services.CPF
                        d = W.subset(chk, ls.item[0].communications_service) if ls.count == 1 and ls.item[0].type_id == 0x100 else ["no services item"]
                        if d:
                            out.append("services item fields differ: %s" % d[:3])
                        mine = W.dd({"CPF": {"item": [{"type_id": 0x100, "communications_service": chk}]}})
                        if bytes(parser.list_services.produce(mine)) != bytes(bytearray(f["payload"])):
                            out.append("list_services.produce(fields) differs")
                    elif f["kind"] in ("rr", "unit"):
                        sd = cip.send_data
                        chk = {"interface": 0, "timeout": f.get("tmo", 0), "CPF": {"count": 2}}
                        if W.subset(chk, sd):
                            out.append("send_data fields differ: %s" % W.subset(chk, sd)[:3])
                        it = sd.CPF.item
                        if f["kind"] == "rr":
                            if it[0].type_id != 0 or it[0].length != 0 or it[1].type_id != 0xB2 or it[1].length != len(f["cip"]):
                                out.append("CPF items differ")
                        else:
                            if it[0].type_id != 0xA1 or it[0].connection_ID.connection != int.from_bytes(bytes(bytearray(f["cid"])), "little") \
                               or it[1].type_id != 0xB1 or it[1].connection_data.sequence != f["seq"] \
                               or bytes(bytearray(it[1].connection_data.request.input)) != bytes(bytearray(f["cip"])):
                                out.append("connected CPF items differ")
                    again = parser.CIP.produce(data.enip)
                    if bytes(again) != bytes(bytearray(f["payload"])):
                        out.append("CIP.produce(parse) differs: %s != %s" % (bytes(again).hex(), bytes(bytearray(f["payload"])).hex()))
                except Exception as exc2:
                    out.append("CIP payload parse failed: %r" % exc2)
    except Exception as exc:
        import traceback
        out.append("exception in cpppo: %s" % traceback.format_exc(limit=3).replace("\n", " | "))
    return out


def main(ctx):
    ev = ctx.ev
    wd = core.workdir()
    deep = "FALSE" if ctx.quick else "TRUE"
    ev.rule = ("vectors: every message of the bounded domain of each sub-grammar (EPATH: every path of <= 2 segments over 35 "
               "segment values -- all kinds, 8/16/32-bit widths, odd/even/255-char names, small/extended ports, numeric/address "
               "links -- plus 3-segment paths; status x extended words; typed data of 13 types at range boundaries; Logix / "
               "attribute requests and all allowed replies; bundles; Unconnected Send with odd/even messages and 0..2 route "
               "segments; frames of every command with boundary header values).  Non-trivial: the message has a variable-"
               "length or padded part (symbolic/address segment, string data, odd-length message, extended status, bundle).")
    ev.assumptions = ["a symbolic segment has a non-empty name (CIP: length >= 1)", "floats are IEEE bit patterns (no NaN)",
                      "Forward Open / Close, List* reply items and the legacy command are not in the vector domain yet (DESIGN 10)",
                      "non-canonical BOOL octets (0x01, 0x80) parse to True and are not regenerated (statement: canonically encoded)"]
    vectors = []
    for w in KINDS:
        cfgp = os.path.join(wd, "wire_%s.cfg" % w)
        tlc.write_cfg(cfgp, ["INIT WInit", "NEXT WNext", "CHECK_DEADLOCK FALSE", "CONSTANTS", ' Which = "%s"' % w, " Deep = %s" % deep])
        res = tlc.run("MC_Wire", cfgp, spec_dir=wd, timeout=1700, workers=4)
        ev.tlc("vectors:" + w, res)
        got = [j for j in res.json if "k" in j]
        if not got:
            ctx.machinery.append("no vectors for %s" % w)
        vectors += got
    if ctx.machinery:
        return
    results = core.pmap(_replay, vectors, chunksize=32)
    shown = set()
    for v, probs in zip(vectors, results):
        nt = v["k"] in ("msp", "ucsend", "frame") or (v["k"] == "epath" and any(g["k"] in ("sym", "porta") for g in v["segs"])) \
            or (v["k"] == "typed" and v["t"] in ("SSTRING", "STRING")) or (v["k"] == "status" and v["ext"]) or v["k"] in ("lreq", "lrpy")
        ev.case(key=json.dumps(v["b"]) + v["k"], nontrivial=nt)
        for p in probs:
            cls = (v["k"], p.split(":")[0])
            rec = {"vector": v, "problem": p, "kind": v["k"]}
            ctx.violation("%s_%s" % cls, rec, what="%s vector %s: %s" % (v["k"], json.dumps({k: x for k, x in v.items() if k not in ("cfg",)})[:300], p[:300]))
    for k in ("epath", "lrpy", "frame"):
        for v in vectors:
            if v["k"] == k and len(v["b"]) > 12:
                ev.sample({k2: x for k2, x in v.items() if k2 != "cfg"})
                break
    ev.exhaustive = True
    ev.extra["vectors_by_kind"] = {k: sum(1 for v in vectors if v["k"] == k) for k in sorted(set(v["k"] for v in vectors))}


def replay(ctx, path):
    rec = json.load(open(path))
    core.select_tree
    probs = _replay(rec["vector"])
    print("vector:", json.dumps(rec["vector"])[:600])
    print("problems now:", probs or "none")
    return 1 if probs else 0
