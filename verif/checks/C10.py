"""C10 -- a length limit bounds what a nested parser may consume.

M: spec/Automata.tla is a big-step semantics of the framework (accept / process / limit resolution / delegate with repeat
   cycles / greedy-terminal stopping rule / final `sent <= ending' check); MC_Automata instantiates a family of synthetic
   machines (fixed-size block, greedy loop, counted repetition, repetition of a sub-grammar that may consume nothing,
   length-prefixed body with trailing symbol, field-limited loop with trailing symbol, nested limits) under every limit
   0..5 / none and repeat 0..3, evaluates every input of length <= 4 over a 3-symbol alphabet, and checks the law
   `completed and terminal => consumed <= limit' on the semantics.
R: each instance is rebuilt from cpppo.state / state_input / dfa and run on each input; compared with the spec's Outcome:
   VIOLATION for the three statements of the property -- a successful, terminal completion consumed more than the limit
   allows; the reported source.sent differs from the symbols actually taken from the input; a successful completion
   ran the sub-grammar a different number of times than the repeat count -- and for success/failure or consumed count
   differing from the semantics on these length-determined shapes.
V: every library parser (primitive types, strings, EPATH x3, status, typed data, CPF, Unconnected Send, service
   request / reply machines) is wrapped in dfa(limit=L) for every L in 0..len+2 and run over spec vectors followed by
   sentinel octets; TLC (AutomataTrace) checks LimitRespected and SentAccounting on every recorded run.
"""
import json
import os
import tempfile

from .. import core, tlc

LEVEL = "model_checking"


def _mk(spec):
    import cpppo
    from cpppo.server.enip import parser, logix, device
    kind, arg = spec
    if kind == "cls":
        return getattr(parser, arg)(terminal=True)
    if kind == "typed":
        return parser.typed_data(tag_type=arg, terminal=True)
    if kind == "logix":
        device.lookup_reset()
        return logix.Logix(instance_id=1).parser      # the class-level service parser (Object.parser)
    if kind == "cm":
        device.lookup_reset()
        return device.Connection_Manager(instance_id=1).parser
    raise ValueError(kind)


# machines whose messages are delimited by their own length fields (fixed size, string / path / item / frame lengths): the octets
# that follow belong to the enclosing grammar whatever the outer limit
DELIMITED = {"USINT", "SINT", "BOOL", "UINT", "INT", "UDINT", "DINT", "REAL", "ULINT", "LINT", "LREAL", "SSTRING", "STRING", "EPATH", "EPATH_padded",
             "EPATH_single", "status", "enip_machine", "send_data", "CPF", "register", "unconnected_send"}


def _lib_runs(job):
    """library machine wrapped in dfa(limit=L) for every L in 0..len+2: job = (label, spec, message octets)"""
    import cpppo
    from .. import autolib
    label, spec, octets = job
    out = []
    n = len(octets)
    for L in range(0, n + 3):
        try:
            inner = _mk(spec)
        except Exception as exc:
            out.append({"m": label, "L": L, "len": n, "build": repr(exc)})
            continue
        top = cpppo.dfa("limited", initial=inner, limit=L, terminal=True, context="x")
        got = autolib.run_machine(top, list(bytearray(octets)) + [0xEE, 0xEE, 0xEE])
        got.update({"m": label, "L": L, "len": n, "delim": label.split(":")[0] in DELIMITED})
        out.append(got)
    return out


def library_jobs(vectors):
    """(label, spec, octets) for library machines, using TLC-emitted wire vectors as the messages"""
    jobs = []
    sizes = {"USINT": 1, "SINT": 1, "BOOL": 1, "UINT": 2, "INT": 2, "UDINT": 4, "DINT": 4, "REAL": 4, "ULINT": 8, "LINT": 8, "LREAL": 8}
    for T, size in sorted(sizes.items()):
        jobs.append((T, ("cls", T), bytes(range(1, size + 1))))
    jobs.append(("SSTRING", ("cls", "SSTRING"), b"\x03abc"))
    jobs.append(("STRING", ("cls", "STRING"), b"\x03\x00abc\x00"))
    for v in vectors:
        k = v["k"]
        b = bytes(bytearray(v["b"]))
        if k == "epath" and 2 <= len(v["segs"]) <= 3 and len(b) < 40:
            jobs.append(("EPATH", ("cls", "EPATH"), b))
            jobs.append(("EPATH_padded", ("cls", "EPATH_padded"), bytes(bytearray(v["bp"]))))
        elif k == "epath" and len(v["segs"]) == 1 and len(b) < 20:
            jobs.append(("EPATH_single", ("cls", "EPATH_single"), bytes(bytearray(v["bs"]))))
        elif k == "status":
            jobs.append(("status", ("cls", "status"), b))
        elif k == "typed" and v["vals"] and len(b) < 30:
            jobs.append(("typed_data:" + v["t"], ("typed", v["code"]), b))
        elif k == "ucsend" and len(b) < 60:
            jobs.append(("unconnected_send", ("cls", "unconnected_send"), b))
        elif k in ("lreq", "lrpy") and len(b) < 40:
            jobs.append(("logix:" + k, ("logix", None), b))
        elif k == "frame" and len(b) < 90:
            jobs.append(("enip_machine", ("cls", "enip_machine"), b))
            f = v["f"]
            pay = bytes(bytearray(f["payload"]))
            if f["kind"] in ("rr", "unit") and len(pay) < 70:
                jobs.append(("send_data", ("cls", "send_data"), pay))          # interface, timeout, CPF with its address / data items
                jobs.append(("CPF", ("cls", "CPF"), pay[6:]))
            elif f["kind"] in ("identity", "services"):
                jobs.append(("CPF:" + f["kind"], ("cls", "CPF"), pay))           # identity_object / communications_service items
            elif f["kind"] == "register":
                jobs.append(("register", ("cls", "register"), pay))
        elif k == "cpf" and len(b) < 80:
            jobs.append(("CPF:items", ("cls", "CPF"), b))                  # item lists of every kind, unrecognized items in front of others
        elif k == "fwd" and not v["large"]:
            jobs.append(("forward_open", ("cm", None), b))
            jobs.append(("forward_close", ("cm", None), bytes(bytearray(v["close"]))))
    return jobs


def main(ctx):
    from .. import autolib
    ev = ctx.ev
    wd = core.workdir()
    cfgp = os.path.join(wd, "auto.cfg")
    tlc.write_cfg(cfgp, ["INIT AInit", "NEXT ANext", "CONSTRAINT EmitInst", "CHECK_DEADLOCK FALSE", "CONSTANTS", " M <- MGraph",
                         " MaxL = %d" % (5 if ctx.quick else 6), " MaxR = 3", " MaxIn = %d" % (4 if ctx.quick else 5)])
    res = tlc.run("MC_Automata", cfgp, spec_dir=wd, timeout=3000)
    ev.tlc("semantics", res)
    inputs = [j["inputs"] for j in res.json if j.get("k") == "inputs"]
    insts = [j for j in res.json if j.get("k") == "inst"]
    if not inputs or len(insts) != res.distinct:
        ctx.machinery.append("emission incomplete: %d/%d instances" % (len(insts), res.distinct))
        return
    inputs = inputs[0]
    ev.rule = ("cases: (machine instance, input): 7 synthetic templates x limit {none, 0..5} x repeat 0..3(4) x every input of "
               "length <= 4 over {1,2,3}; library machines x every limit 0..len+2 x vector + sentinel octets.  Non-trivial: "
               "the limit (or repeat count) is smaller than what the grammar would otherwise consume -- it bites.")
    ev.assumptions = ["whole input available (end of input), as the harness drives the machines; chunked delivery is C02/C11/C20",
                      "`or it fails': a failing run may transiently take one symbol beyond the limit before its final check"]
    results = core.pmap(autolib.exec_instance, [(j["i"], inputs, j["res"]) for j in insts], chunksize=1)
    drift = 0
    for j, outs in zip(insts, results):
        i = j["i"]
        for syms, want, got in zip(inputs, j["res"], outs):
            wdone, wpos, wterm, wruns = want
            bites = i["l"] >= 0 and i["l"] < len(syms)
            ev.case(key=(json.dumps(i, sort_keys=True), tuple(syms)), nontrivial=bites)
            rec = {"instance": i, "input": syms, "spec": {"done": wdone, "consumed": wpos, "terminal": wterm, "runs": wruns}, "got": got}
            lim = i["l"] if i["l"] >= 0 and i["t"] not in ("len", "fld") else None
            if got["done"] and got["terminal"] and lim is not None and got["sent"] > lim:
                ctx.violation("limit_exceeded_%s" % i["t"], rec, what="%s limit %d: completed successfully having consumed %d symbols of %s" % (i["t"], lim, got["sent"], syms))
            elif got["sent"] != got["actual"]:
                ctx.violation("sent_accounting_%s" % i["t"], rec, what="%s: source.sent = %d but %d symbols were actually taken from %s" % (i["t"], got["sent"], got["actual"], syms))
            elif got["done"] and got["terminal"] and wdone and wterm and i["t"] in ("rep", "opt") and got["runs"] != wruns:
                ctx.violation("repeat_count_%s" % i["t"], rec, what="%s repeat %d on %s: sub-grammar ran %d times" % (i["t"], i["r"], syms, got["runs"]))
            elif (bool(wdone and wterm) != bool(got["done"] and got["terminal"])) or (wdone and wterm and got["sent"] != wpos):
                ctx.violation("semantics_%s" % i["t"], rec, what="%s l=%d r=%d on %s: spec %s, machine %s" % (
                    i["t"], i["l"], i["r"], syms, rec["spec"], {k: got[k] for k in ("done", "sent", "terminal", "exc", "runs")}))
            elif (not wdone) and got["sent"] != wpos:
                drift += 1
    ev.extra["spec_drift_failure_positions"] = drift
    ev.sample({"instance": insts[len(insts) // 2]["i"], "inputs": inputs[40:44], "expected_done_consumed_terminal_runs": insts[len(insts) // 2]["res"][40:44]})
    # V: library machines under every limit, laws checked by TLC
    vectors = []
    for w in ("epath", "status", "typed", "logix", "ucsend", "frames", "fwd", "cpf"):
        cfgw = os.path.join(wd, "wire_%s.cfg" % w)
        tlc.write_cfg(cfgw, ["INIT WInit", "NEXT WNext", "CHECK_DEADLOCK FALSE", "CONSTANTS", ' Which = "%s"' % w, " Deep = FALSE"])
        r2 = tlc.run("MC_Wire", cfgw, spec_dir=wd, timeout=1700, workers=4)
        ev.tlc("vectors:" + w, r2)
        got = [j for j in r2.json if "k" in j]
        vectors += got[:: max(1, len(got) // (40 if ctx.quick else 200))]
    ljobs = library_jobs(vectors)
    runs = [x for r in core.pmap(_lib_runs, ljobs, chunksize=4) for x in r]
    lines = [x for x in runs if "build" not in x]
    nobuild = sorted(set(x["m"] for x in runs if "build" in x))
    if nobuild:
        ctx.machinery.append("library machines could not be built: %s" % nobuild)
    bym = {}
    for x in lines:
        bym[x["m"].split(":")[0]] = bym.get(x["m"].split(":")[0], 0) + 1
    ev.extra["library_runs_by_machine"] = bym
    fd, path = tempfile.mkstemp(prefix="auto_", suffix=".ndjson")
    with os.fdopen(fd, "w") as f:
        for x in lines:
            f.write(json.dumps({"L": x["L"], "len": x["len"], "sent": x["sent"], "actual": x["actual"], "ok": bool(x["done"] and x["terminal"]), "delim": bool(x["delim"])}) + "\n")
    try:
        r3 = tlc.run("AutomataTrace", "AutomataTrace.cfg", env={"TRACE_FILE": path}, timeout=1700)
    finally:
        os.unlink(path)
    ev.tlc("library-laws", r3)
    if r3.distinct != len(lines):
        ctx.machinery.append("library laws: TLC evaluated %d of %d runs" % (r3.distinct, len(lines)))
    for j in r3.json:
        if "tid" in j:
            x = lines[j["tid"] - 1]
            ctx.violation("library_%s_%s" % (j["why"], x["m"]), {"run": x, "law": j["why"]},
                          what="library machine %s under limit %d (message %d octets): %s: %s" % (x["m"], x["L"], x["len"], j["why"], x))
    for x in lines:
        ev.case(key=(x["m"], x["L"], x["len"]), nontrivial=x["L"] < x["len"])
    ev.sample({"library_run": lines[len(lines) // 2]})
    ev.exhaustive = True
    ev.extra.update({"instances": len(insts), "inputs": len(inputs), "library_machines": len(ljobs), "library_runs": len(lines)})


def replay(ctx, path):
    from .. import autolib
    rec = json.load(open(path))
    if "instance" in rec:
        top, counter = autolib.build(rec["instance"])
        got = autolib.run_machine(top, rec["input"])
        got["runs"] = counter.entered
        print("spec:", rec["spec"], "\nnow :", got)
        return 0 if (bool(got["done"] and got["terminal"]) == bool(rec["spec"]["done"] and rec["spec"]["terminal"])) else 1
    print(json.dumps(rec)[:800])
    return 1
