"""C04 -- fragmented transfers reassemble exactly and every fragment makes progress.

M: spec/MC_Frag.tla: a client walks Read Tag Fragmented / tiles Write Tag Fragmented against Logix!ReadOuts/WriteOuts;
   TLC explores, for an element type, every tag length 1..6, start, count, reply budget 1..2*size+3, every number of
   elements the statement lets a fragment carry and every order of the write tiles, and checks NeverFails,
   FragmentSize (>= 1 element, <= budget rounded up), Reassembly, Tiled and <>done (progress, weak fairness).
R: TLC emits every (length, budget, start, count[, tiling]) with the request octets for each offset; each transfer is
   walked on the real simulator (offset advanced by the data received); TLC validates each fragment against the spec
   and the transfer as a whole (statuses 0x06..0x06,0x00; concatenation = the requested elements; final memory).
"""
import json
import os
import random

from .. import core, logixlib, tlc

LEVEL = "model_checking"
TYPES_Q = ["SINT", "INT", "DINT", "LINT", "REAL", "LREAL", "BOOL", "UINT"]
TYPES_T = ["BOOL", "SINT", "USINT", "INT", "UINT", "DINT", "UDINT", "REAL", "LINT", "ULINT", "LREAL"]
SZ = {"BOOL": 1, "SINT": 1, "USINT": 1, "INT": 2, "UINT": 2, "DINT": 4, "UDINT": 4, "REAL": 4, "LINT": 8, "ULINT": 8, "LREAL": 8}


def frag_cfg(path, ty, maxlen, maxbudget, emit):
    if emit:
        lines = ["INIT FInit", "NEXT EmitInitOnly", "CONSTRAINT EmitCase"]
    else:
        lines = ["SPECIFICATION FSpec", "INVARIANT NeverFails", "INVARIANT Reassembly", "INVARIANT InProgress",
                 "INVARIANT Tiled", "PROPERTY FragmentSize", "PROPERTY Progress"]
    lines += ["CHECK_DEADLOCK FALSE", "CONSTANTS", ' Ty = "%s"' % ty, " MaxLen = %d" % maxlen, " MaxBudget = %d" % maxbudget]
    tlc.write_cfg(path, lines)


def apalache_inductive(ctx, wd):
    """unbounded: the tiling arithmetic of a transfer (spec/FragInd.tla) as an inductive invariant, for any length, element
    size and budget -- Init => IndInv, IndInv /\\ Next => IndInv', IndInv => the transfer can continue"""
    import shutil
    import subprocess
    import tempfile
    exe = shutil.which("apalache-mc")
    if not exe:
        ctx.machinery.append("apalache-mc not found")
        return
    out = tempfile.mkdtemp(prefix="apa_")
    results = []
    try:
        for args in (["--init=Init", "--inv=IndInv", "--length=0"], ["--init=IndInit", "--inv=IndInv", "--length=1"],
                     ["--init=IndInit", "--inv=Live", "--length=0"]):
            p = subprocess.run([exe, "check", "--cinit=CInit"] + args + ["--out-dir=" + out, "FragInd.tla"], cwd=wd, stdout=subprocess.PIPE,
                               stderr=subprocess.STDOUT, universal_newlines=True, timeout=900)
            ok = "The outcome is: NoError" in p.stdout
            results.append({"args": " ".join(args), "ok": ok})
            if not ok:
                if "violat" in p.stdout:
                    ctx.violation("inductive_invariant", {"apalache": args, "output": p.stdout[-1500:]},
                                  what="FragInd.tla: apalache-mc %s reports a violation" % " ".join(args))
                else:
                    ctx.machinery.append("apalache-mc %s failed: %s" % (" ".join(args), p.stdout[-400:]))
    finally:
        shutil.rmtree(out, ignore_errors=True)
    ctx.ev.extra["apalache_inductive_invariant"] = results


def main(ctx):
    ev = ctx.ev
    wd = core.workdir()
    apalache_inductive(ctx, wd)
    rng = random.Random(ctx.seed)
    types = TYPES_Q if ctx.quick else TYPES_T
    maxlen = 5 if ctx.quick else 7
    ev.rule = ("cases: every (element type, tag length 1..%d, start, count, reply budget 1..2*size+3) read transfer and "
               "every tiling (<= 4 elements) of a write transfer, emitted by TLC; write tiles replayed in order, reversed "
               "and shuffled.  Non-trivial: the transfer needs more than one fragment / tile." % maxlen)
    ev.assumptions = ["execution level: Connection_Manager.request on CIP request octets; reply budget = Logix.MAX_BYTES",
                      "string and UDT elements are outside C04 (the code documents byte offsets into them as unsupported)"]
    jobs = []
    for ty in types:
        mb = 2 * SZ[ty] + 3
        cfgp = os.path.join(wd, "frag_%s.cfg" % ty)
        frag_cfg(cfgp, ty, maxlen, mb, emit=False)
        res = tlc.run("MC_Frag", cfgp, spec_dir=wd, timeout=1500)
        ev.tlc("transfer-model:" + ty, res)
        if res.violated:
            ctx.spec_violation(res, "transfer-model:" + ty)
        cfge = os.path.join(wd, "frage_%s.cfg" % ty)
        frag_cfg(cfge, ty, maxlen, mb, emit=True)
        res = tlc.run("MC_Frag", cfge, spec_dir=wd, timeout=1500)
        ev.tlc("transfer-emit:" + ty, res)
        cases = [j for j in res.json if j.get("k") in ("rd", "wr")]
        if len(cases) != res.distinct:
            ctx.machinery.append("emission %s incomplete %d/%d" % (ty, len(cases), res.distinct))
        for c in cases:
            if c["k"] == "rd":
                jobs.append((c, None))
            else:
                n = len(c["reqs"])
                orders = {tuple(range(n)), tuple(reversed(range(n)))}
                p = list(range(n))
                rng.shuffle(p)
                orders.add(tuple(p))
                for o in sorted(orders):
                    jobs.append((c, list(o)))
    if ctx.machinery:
        return
    lines = core.pmap(logixlib.exec_xfer, jobs, chunksize=16)
    for (c, o), ln in zip(jobs, lines):
        ev.case(key=(c["cfg"]["tags"][0]["type"], c["cfg"]["tags"][0]["len"], c["cfg"]["budget"], c["start"], c["n"], c["k"],
                     tuple(o or ())), nontrivial=len(ln["ev"]) > 1)
    for ln in (lines[len(lines) // 2], lines[-1]):
        ev.sample({"cfg": ln["cfg"], "xfer": ln["xfer"], "fragments": [{"off": e["r"]["off"], "rpy": e["rpy"]} for e in ln["ev"]]})
    bad = logixlib.validate(ctx, lines, "C04")
    logixlib.report(ctx, bad, "C04")
    ev.exhaustive = True
    ev.extra["element_types"] = types


def replay(ctx, path):
    from . import C03
    return C03.replay(ctx, path)
