"""C12 -- client results do not depend on pipelining depth or request bundling; textual operations.

M: spec/Client.tla: the application-level contract (one result per operation, in order, equal to issuing the operations one
   after the other on the tag model of LogixOps, in plain and fragment mode) and the textual form of an operation (OpText).
R: TLC emits every operation list of <= 2 (3) operations over a basis of reads / writes / refused operations (range and type
   errors) / symbolic and @class/instance/attribute addressing, with each operation's text; the real connector runs every
   list against a live simulator thread under the whole settings matrix depth {0,1,2,5} x multiple {0,100,4000} x
   fragment {off,on} and two route-path patterns; longer lists (4-7 operations) are composed at random.
V: TLC (ClientTrace) accepts a run iff there is exactly one result per operation, the (status, extended status, values)
   sequence is explained by the tag model, and no Multiple Service Packet carried operations with different route paths
   (each operation must leave under its own route path).  parse_operations / format_path are checked against OpText.
"""
import json
import os
import random
import tempfile

from .. import core, tlc

LEVEL = "model_checking"
SETTINGS = [(d, m, f) for d in (0, 1, 2, 5) for m in (0, 100, 4000) for f in (False, True)]
PATTERNS = [[0], [0, 0, 1, 1], [0, 1]]


def emit(ctx, wd, maxops):
    cfgp = os.path.join(wd, "client.cfg")
    tlc.write_cfg(cfgp, ["INIT LInit", "NEXT LNext", "CONSTRAINT LEmit", "CHECK_DEADLOCK FALSE", "CONSTANTS", " MaxOps = %d" % maxops])
    res = tlc.run("MC_Client", cfgp, spec_dir=wd, timeout=1700, workers=4)
    ctx.ev.tlc("lists", res)
    cfg = [j for j in res.json if j.get("k") == "cfg"]
    basis = [j for j in res.json if j.get("k") == "op"]
    lists = [j["ops"] for j in res.json if j.get("k") == "list"]
    if not cfg or not basis or len(lists) != res.distinct:
        ctx.machinery.append("client emission incomplete")
        return None
    text = {json.dumps(j["r"], sort_keys=True): j["text"] for j in basis}
    emit.big = ([j for j in res.json if j.get("k") == "bigcfg"], [j for j in res.json if j.get("k") == "bigop"])
    emit.plain = [j for j in res.json if j.get("k") == "optext"]
    emit.paths = [j for j in res.json if j.get("k") == "pathtext"]
    return cfg[0], basis, [[{"r": r, "text": text[json.dumps(r, sort_keys=True)]} for r in lst] for lst in lists]


def validate(ctx, lines, name, chunk=8000):
    bad = []
    keys = ("cfg", "mem0", "ops", "frag", "obs", "fault", "delivered", "raised", "mixed")
    for k in range(0, len(lines), chunk):
        ch = lines[k:k + chunk]
        fd, path = tempfile.mkstemp(prefix="client_", suffix=".ndjson")
        with os.fdopen(fd, "w") as f:
            for ln in ch:
                f.write(json.dumps({x: ln[x] for x in keys}, separators=(",", ":")) + "\n")
        try:
            res = tlc.run("ClientTrace", "ClientTrace.cfg", env={"TRACE_FILE": path}, timeout=2400)
        finally:
            os.unlink(path)
        ctx.ev.tlc("validate:" + name, res)
        if res.distinct != len(ch):
            ctx.machinery.append("validate %s: TLC evaluated %d of %d runs" % (name, res.distinct, len(ch)))
        for j in res.json:
            if "tid" in j:
                bad.append((ch[j["tid"] - 1], j["why"]))
    return bad


def main(ctx):
    from .. import clientlib
    ev = ctx.ev
    wd = core.workdir()
    rng = random.Random(ctx.seed)
    got = emit(ctx, wd, 2 if ctx.quick else 3)
    if not got:
        return
    c, basis, lists = got
    cfg, mem0 = c["cfg"], c["mem0"]
    ev.rule = ("cases: (operation list, setting, route pattern): every list of <= 2 (3) operations over an 11-operation basis plus "
               "random lists of 4-7, each under depth {0,1,2,5} x multiple {0,100,4000} x fragment {off,on} (sampled per list in "
               "quick) and route patterns {same, AABB, ABAB}.  Non-trivial: the list has >= 2 operations with a write or a "
               "refused operation, under pipelining or bundling.")
    ev.assumptions = ["'refused with a CIP status' = refused on an existing tag (range / type errors); unknown tags end the session (C13's territory)",
                      "fragment mode: writes spell their element range (precondition of parse_operations)"]
    # textual operations
    plain = emit.plain          # writes spelled without a cast (text check only)
    if not plain:
        ctx.machinery.append("no un-cast operation texts emitted")
    for j, probs in zip(basis + plain, core.pmap(clientlib.check_text, [(cfg, j) for j in basis + plain])):
        ev.case(key=("text", j["text"]), nontrivial=True)
        for p in probs:
            ctx.violation("operation_text", {"op": j, "problem": p}, what=p)
    # multi-level tag paths: segments, element and count as the text spells them
    from cpppo.server.enip import device
    if not emit.paths:
        ctx.machinery.append("no multi-level path texts emitted")
    for j in emit.paths:
        ev.case(key=("pathtext", j["text"]), nontrivial=True)
        want = ([{"symbolic": g["s"]} if g["k"] == "sym" else {"element": g["v"]} for g in j["segs"]], None if j["elm"] < 0 else j["elm"], None if j["cnt"] < 0 else j["cnt"])
        try:
            seg, elm, cnt = device.parse_path_elements(j["text"])
            got = ([dict(x) for x in seg], elm, cnt)
        except Exception as exc:
            got = repr(exc)
        if got != want:
            ctx.violation("path_text", {"path": j, "got": repr(got)}, what="tag path %r parsed to %r, spells %r" % (j["text"], got, want))
    ev.sample({"operation_text": [j["text"] for j in basis]})
    longer = [[rng.choice(basis) for _ in range(rng.randint(4, 7))] for _ in range(40 if ctx.quick else 400)]
    longer = [[{"r": j["r"], "text": j["text"]} for j in lst] for lst in longer]
    jobs = []
    for lst in lists + longer:
        settings = SETTINGS if not ctx.quick or len(lst) > 3 else rng.sample(SETTINGS, 5) + [(0, 0, False)]
        strw = any(o["r"]["svc"] == "write" and o["r"]["typ"] in ("SSTRING", "STRING") for o in lst)
        for st in settings:
            if strw and st[2]:
                st = (st[0], st[1], False)       # fragmented writes need fixed-size elements (documented; C04 excludes strings)
            jobs.append((cfg, mem0, lst, st, PATTERNS[rng.randrange(3)] if len(lst) > 1 else [0], None))
    # the same list of operation dicts issued twice on one connection (the caller's dicts must not be consumed), and
    # operate(validating=True): same results
    for lst in rng.sample(lists + longer, 40 if ctx.quick else 400):
        for st in [(0, 0, False, False, True), (2, 0, False, True, False), (1, 500, False, True, True), (0, 0, False, True, False)]:
            jobs.append((cfg, mem0, lst, st, [0], None))
    # sender contexts that are binary octets with zeros inside (the client pairs replies with requests by context)
    for lst in rng.sample(lists + longer, 12 if ctx.quick else 120):
        for st in [(2, 0, False, False, False, True), (1, 500, False, False, False, True), (0, 0, False, False, False, True)]:
            jobs.append((cfg, mem0, lst, st, [0], None))
    # replies larger than one receive buffer (> 4096 octets): many 100-element reads in one bundle
    bigc, bigops = emit.big
    if not bigc or len(bigops) < 4:
        ctx.machinery.append("large-reply operations not emitted")
        return
    rd = [j for j in bigops if j["r"]["svc"] == "read" and j["r"]["tag"] == 1]
    other = [j for j in bigops if j not in rd]
    for _ in range(6 if ctx.quick else 60):
        lst = [rng.choice(rd) for _ in range(rng.randint(11, 16))]
        for o in other:
            lst.insert(rng.randrange(len(lst) + 1), o)
        lst = [{"r": j["r"], "text": j["text"]} for j in lst]
        for st in [(0, 0, False), (3, 0, False), (1, 8000, False), (3, 20000, False), (2, 2000, False)]:
            jobs.append((bigc[0]["cfg"], bigc[0]["mem0"], lst, st, [0], None))
    lines = core.pmap(clientlib.run_client, jobs, chunksize=16)
    for ln in lines:
        nt = len(ln["ops"]) >= 2 and any(r["svc"] in ("write", "writef") or r["idx"] + r["n"] > 3 for r in ln["ops"]) and (ln["setting"][0] > 0 or ln["setting"][1] > 0)
        ev.case(key=(json.dumps(ln["ops"]), tuple(ln["setting"]), tuple(ln["pattern"])), nontrivial=nt)
    mid = lines[-3]
    ev.sample({"operations": [OPT for OPT in [json.dumps(r)[:80] for r in mid["ops"]]], "setting_depth_multiple_fragment": mid["setting"],
               "results": mid["obs"], "sends": mid["sends"]})
    bad = validate(ctx, lines, "C12")
    classes = {}
    for ln, why in bad:
        classes.setdefault((why, tuple(ln["setting"])), []).append(ln)
    for k in sorted(classes, key=str)[:30]:
        print("  rejected-class %s setting %s x%d" % (k[0], list(k[1]), len(classes[k])))
    for ln, why in bad:
        rec = {"why": why, "ops": ln["ops"], "setting": ln["setting"], "pattern": ln["pattern"], "obs": ln["obs"], "exc": ln["exc"]}
        ctx.violation("client_%s" % why, rec, what="client %s: %d operations, depth/multiple/fragment %s: results %s exc %s" % (
            why, len(ln["ops"]), ln["setting"], json.dumps(ln["obs"])[:300], ln["exc"]))
    ev.extra.update({"lists": len(lists) + len(longer), "runs": len(lines)})


def replay(ctx, path):
    rec = json.load(open(path))
    print(json.dumps(rec)[:1500])
    return 1
