"""C02 -- message framing ignores stream segmentation; an incomplete frame has no effect.

M: spec/Server.tla, one connection: TLC explores every delivery schedule (Recv of any size, Eof anywhere) of streams of
   1..2 frames and checks ProcOnlyComplete, OneReplyEach, PartialNoEffect, ClosedStays.
R: TLC emits the scenarios (frames encoded by the spec's encoder, frame boundaries); the real enip_srv_tcp is run over a
   virtual socket for: the whole stream, every two-way split, byte-at-a-time, one chunk per frame, random k-way splits
   with receive timeouts interspersed, and every truncation offset followed by end-of-stream.
V: every session's event log (recv n / timeout / eof / request handed to processing / reply octets / close) is
   validated by TLC (ServerTrace): processing only after the frame's last octet, exactly 24+length octets per frame,
   replies as the spec computes them, close only when nothing complete is unanswered, final tag memory as the spec's,
   and a following connection still served.
L: below the receive seam: the same server over a real loopback TCP connection (cpppo.server.network.recv itself runs): streams of
   answered frames adding up to 4094 / 4096 / 4098 / 8192 octets (the receive buffer size and its neighbours) in one write or
   cut at the buffer size; every reply must arrive while the connection is open, and the log is validated by ServerTrace too.
"""
import json
import random

from .. import core, serverlib

LEVEL = "model_checking"


def schedules(scj, rng, quick, full):
    L = scj["ends"][-1]
    ends = scj["ends"]
    out = [[L], [1] * L]
    per = [ends[0]] + [ends[i] - ends[i - 1] for i in range(1, len(ends))]
    out.append(per)
    splits = range(1, L) if full else sorted(set(rng.sample(range(1, L), min(L - 1, 12)) + [e for e in ends[:-1]] +
                                                 [e + d for e in [0] + ends[:-1] for d in (1, 2, 3, 4, 23, 24, 25) if 0 < e + d < L]))
    for k in splits:
        out.append([k, L - k])
    cuts = range(0, L) if full else sorted(set(rng.sample(range(0, L), min(L, 12)) + [e + d for e in [0] + ends[:-1] for d in (0, 1, 2, 3, 23, 24, 25) if e + d < L]))
    for t in cuts:
        out.append([t] if t else [])
        if t > 3 and rng.random() < 0.3:
            out.append([1] * t)
    for _ in range(6 if quick else 30):
        sizes, left = [], L
        while left:
            n = min(left, rng.choice([1, 1, 2, 3, 5, 8, 13, 24, 40, 100]))
            sizes.append(n)
            left -= n
            if rng.random() < 0.2:
                sizes.append(None)
        if rng.random() < 0.3:
            cut = rng.randrange(len(sizes))
            sizes = sizes[:cut]
        out.append(sizes)
    return out


def _fill(singles, total, rng):
    """a random sequence of single-frame scenarios whose frame lengths add up to exactly `total' (None if there is none)"""
    lens = sorted(set(len(x["fb"][0]) for x in singles))
    ok = [False] * (total + 1)
    ok[0] = True
    for t in range(1, total + 1):
        ok[t] = any(l <= t and ok[t - l] for l in lens)
    if not ok[total]:
        return None
    byl = {}
    for x in singles:
        byl.setdefault(len(x["fb"][0]), []).append(x)
    out, left = [], total
    while left:
        l = rng.choice([l for l in lens if l <= left and ok[left - l]])
        out.append(rng.choice(byl[l]))
        left -= l
    reg = [x for x in out if x["sc"]["frames"][0]["kind"] == "register"]
    rest = [x for x in out if x["sc"]["frames"][0]["kind"] != "register"]
    return reg[:1] + rest + reg[1:] if reg else out


def main(ctx):
    ev = ctx.ev
    wd = core.workdir()
    rng = random.Random(ctx.seed)
    ev.rule = ("cases: (scenario, delivery schedule): scenarios = every stream of 1 frame and sampled streams of 2 (quick) / "
               "all of 2 and sampled of 3 (thorough) frames over the frame set (Register, List*, SendRRData reads / writes / "
               "failing requests / bundle, wrapped and bare, Unregister, unsupported command); schedules = whole, bytewise, "
               "per frame, two-way splits (all for 1-frame streams and a sample of streams, boundary offsets for the rest), "
               "truncation at every / boundary offsets + EOF, random k-way splits with timeouts.  Non-trivial: the schedule "
               "cuts inside a frame or truncates the stream.")
    ev.assumptions = ["virtual socket: cpppo.server.network.recv scripted; the real enip_srv_tcp, enip_machine, logix.process run",
                      "Register's random session handle only required to be non-zero"]
    serverlib.run_model(ctx, wd, 1 if ctx.quick else 2, "any", "all", "any1")
    scs1 = serverlib.emit_scenarios(ctx, wd, 1, "any", "all", "one")
    scs2 = [s for s in serverlib.emit_scenarios(ctx, wd, 2, "any", "all", "two") if len(s["sc"]["frames"]) == 2]
    if ctx.machinery:
        return
    pick2 = rng.sample(scs2, 30 if ctx.quick else len(scs2))
    full2 = set(id(s) for s in (rng.sample(pick2, 4 if ctx.quick else 40)))
    jobs = []
    for s in scs1:
        for sz in schedules(s, rng, ctx.quick, True):
            jobs.append((s, sz))
    for s in pick2:
        for sz in schedules(s, rng, ctx.quick, id(s) in full2):
            jobs.append((s, sz))
    if not ctx.quick:
        scs3 = [s for s in serverlib.emit_scenarios(ctx, wd, 3, "any", "all", "three") if len(s["sc"]["frames"]) == 3]
        for s in rng.sample(scs3, 150):
            for sz in schedules(s, rng, True, False):
                jobs.append((s, sz))
    lines = core.pmap(serverlib.exec_session, jobs, chunksize=8)
    for (s, sz), ln in zip(jobs, lines):
        L = s["ends"][-1]
        covered = sum(x for x in sz if x)
        cutsinside = covered < L or any(c not in s["ends"] for c in _cum(sz)[:-1])
        ev.case(key=(json.dumps(s["fb"]), json.dumps(sz)), nontrivial=cutsinside)
    mid = lines[len(lines) // 2]
    ev.sample({"frames": [f["kind"] for f in mid["sc"]["frames"]], "sizes": mid["sizes"],
               "events": [{k: (v if k != "b" else "<%d octets>" % len(v)) for k, v in e.items()} for e in mid["ev"]]})
    bad = serverlib.validate(ctx, lines, "C02")
    serverlib.report(ctx, bad, "C02")
    ev.extra["sessions"] = len(lines)
    # below the receive seam: the same server over a REAL loopback TCP connection, cpppo.server.network.recv itself included.
    # Streams of answered frames whose total length sits at / next to a multiple of the receive buffer size (4096), delivered in one
    # write or cut at the buffer size: every request must be answered while the connection is still open (C02: acted upon as soon
    # as its last octet has been delivered), and the log must be a behaviour of Server.tla like any other.
    answered = [x for x in scs1 if x["sc"]["frames"][0]["kind"] in ("register", "listservices", "listidentity", "listinterfaces") or
                (x["sc"]["frames"][0]["kind"] == "rr" and x["sc"]["frames"][0]["req"]["tag"] != 0 and x["sc"]["frames"][0]["req"]["svc"] != "multi")]
    ljobs = []
    for total in ((4094, 4096, 4098, 8192) if ctx.quick else (4092, 4094, 4096, 4098, 4100, 8190, 8192, 8194, 12288, 16384)):
        for rep in range(2 if ctx.quick else 6):
            fs = _fill(answered, total, rng)
            if fs is None:
                continue
            ends, at = [], 0
            for f in fs:
                at += len(f["fb"][0])
                ends.append(at)
            sc = {"sc": dict(fs[0]["sc"], frames=[f["sc"]["frames"][0] for f in fs]), "fb": [f["fb"][0] for f in fs], "ends": ends}
            ljobs.append((sc, [total], len(fs)))
            if total > 4096 and rep == 0:
                ljobs.append((sc, [4096, total - 4096], len(fs)))
    if not ljobs:
        ctx.machinery.append("no stream of answered frames adds up to a multiple of the receive buffer size")
    llines = [serverlib.exec_live(j) for j in ljobs]            # (real sockets and wall-clock waits: one at a time)
    for j, ln in zip(ljobs, llines):
        ev.case(key=("live", json.dumps(j[0]["fb"])[:2000], json.dumps(j[1])), nontrivial=True)
        if not ln["prompt"] or not ln["finished"]:
            ctx.violation("live_not_answered_when_complete", {"live": True, "sizes": ln["sizes"], "frames": len(j[0]["fb"]), "received": ln["received"],
                                                               "events": [{k: (v if k != "b" else len(v)) for k, v in e.items()} for e in ln["ev"]][:60]},
                          what="real TCP connection: %d frames (%d octets) delivered as %s: %d of %d replies had arrived after %.1f s with the connection open%s" % (
                              len(j[0]["fb"]), j[0]["ends"][-1], ln["sizes"], ln["received"], ln["expect"], ln["took"], "" if ln["finished"] else "; the server did not end the session"))
    bad = serverlib.validate(ctx, [ln for ln in llines if ln["prompt"] and ln["finished"]], "C02live")
    serverlib.report(ctx, bad, "C02")
    ev.extra["live_sessions"] = len(llines)
    # client side of the framing: the reply streams the server produced, re-chunked into the real client.__next__
    import os
    import tempfile
    from .. import tlc
    streams, hdronly = [], 0
    for ln in lines:
        rs = [e["b"] for e in ln["ev"] if e["a"] == "send"]
        short = any(len(b) == 24 for b in rs)              # a header-only frame (an error reply)
        if len(rs) >= 2 and (len(streams) < (12 if ctx.quick else 60) or (short and hdronly < 4)):
            streams.append([x for b in rs for x in b])
            hdronly += 1 if short else 0
    # header-only frames also in the middle of a stream: error replies of several sessions back to back
    shorts = [b for ln in lines for b in [e["b"] for e in ln["ev"] if e["a"] == "send"] if len(b) == 24][:2]
    longs = [b for ln in lines for b in [e["b"] for e in ln["ev"] if e["a"] == "send"] if len(b) > 40][:2]
    if shorts and longs:
        streams.append(list(longs[0]) + list(shorts[0]) + list(longs[-1]) + list(shorts[-1]))
    if longs:
        # a NOP frame (command 0x0000, no payload: its first octet is zero) between and after reply frames
        nop = [0, 0, 0, 0, 1, 0, 0, 0, 0, 0, 0, 0, 9, 8, 7, 6, 5, 4, 3, 2, 0, 0, 0, 0]
        streams.append(list(longs[0]) + nop + list(longs[-1]) + nop)
    cjobs = []
    for st in streams:
        L = len(st)
        for sz in [[L], [1] * L] + [[k, L - k] for k in range(1, L, 1 if len(cjobs) < 2000 else 5)]:
            cjobs.append((st, sz, None))
        for t in range(0, L, 3):
            cjobs.append((st, [t], t))                   # truncated stream then end-of-stream
        for _ in range(5):
            sizes, left = [], L
            while left:
                n = min(left, rng.choice([1, 2, 5, 24, 30, 100]))
                sizes.append(n)
                left -= n
            cjobs.append((st, sizes, None))          # (no receive timeouts here: client.__next__ is only re-entered when input is readable)
    cres = core.pmap(client_framing, cjobs, chunksize=16)
    fd, path = tempfile.mkstemp(prefix="framing_", suffix=".ndjson")
    with os.fdopen(fd, "w") as f:
        for r in cres:
            f.write(json.dumps({k: r[k] for k in ("stream", "got", "end", "when", "late", "cuts")}, separators=(",", ":")) + "\n")
    try:
        r3 = tlc.run("FramingTrace", "FramingTrace.cfg", env={"TRACE_FILE": path}, timeout=1700)
    finally:
        os.unlink(path)
    ev.tlc("client-framing", r3)
    if r3.distinct != len(cres):
        ctx.machinery.append("client framing: TLC evaluated %d of %d" % (r3.distinct, len(cres)))
    for r in cres:
        ev.case(key=("client", json.dumps(r["stream"][:60]), json.dumps(r["sizes"])), nontrivial=len(r["sizes"]) > 1)
    for j in r3.json:
        if "tid" in j:
            r = cres[j["tid"] - 1]
            ctx.violation("client_framing_%s" % j["why"], {"why": j["why"], "stream": r["stream"], "sizes": r["sizes"], "got": r["got"], "end": r["end"]},
                          what="client framing: %d-octet reply stream in chunks %s: %s: %d messages, end=%s" % (len(r["stream"]), r["sizes"][:10], j["why"], len(r["got"]), r["end"]))
    ev.extra["client_framing_runs"] = len(cres)


_LISTEN = {}


def client_framing(job):
    """client side: feed client.__next__ a reply stream in chunks (scripted recvfrom), then end of stream"""
    import socket
    from cpppo.server.enip import client
    stream, sizes, truncate = job
    if "sock" not in _LISTEN:
        ls = socket.socket()
        ls.bind(("127.0.0.1", 0))
        ls.listen(50)
        _LISTEN["sock"] = ls
    ls = _LISTEN["sock"]
    data = bytes(bytearray(stream))[:truncate] if truncate is not None else bytes(bytearray(stream))
    script, at = [], 0
    for n in sizes:
        if n is None:
            script.append(None)
        else:
            script.append(data[at:at + n])
            at += n
    script = [c for c in script if c is None or len(c)] + ([data[at:]] if at < len(data) else []) + [b""]

    fed = {"n": 0, "eof": False}
    cuts, c = [], 0
    for x in script:
        if x:
            c += len(x)
            cuts.append(c)

    class Scripted(client.client):
        def recvfrom(self, timeout=None):
            if not script:
                fed["eof"] = True
                return b"", self.addr
            x = script.pop(0)
            if x is not None:
                fed["n"] += len(x)
                fed["eof"] = fed["eof"] or len(x) == 0
            return x, self.addr
    cli = Scripted(host=ls.getsockname()[0], port=ls.getsockname()[1], timeout=2)
    peer, _ = ls.accept()
    got, end, when, late = [], "stop", [], 0
    try:
        with cli:
            for _ in range(10 * len(data) + 50):
                try:
                    r = next(cli)
                except StopIteration:
                    break
                if r is not None:
                    got.append([r.enip.command, list(bytearray(r.enip.sender_context.input))])
                    when.append(fed["n"])
                    if fed["eof"] and not late:
                        late = len(got)
            else:
                end = "error"
    except Exception:
        end = "error"
    finally:
        peer.close()
    return {"stream": list(data), "got": got, "end": end, "sizes": sizes, "when": when, "late": late, "cuts": cuts or [0]}


def _cum(sz):
    out, at = [], 0
    for x in sz:
        if x:
            at += x
            out.append(at)
    return out or [0]


replay = serverlib.replay
