"""C16 -- dotdict behaves as a tree of nested mappings addressed by dotted paths.

M: spec/DotDict.tla (flat view of the tree, path resolution with '..', operation semantics) explored by TLC over every
   history of catalogue operations to depth 2-3: WellFormed, IterationMatchesLookup, InteriorLookup, ReadOnly,
   DelOnlyLeaves.
R: TLC emits the operation catalogue (keys as text, built by the spec) and every reachable state; each (state,
   operation) runs on a real dotdict built from the state with raw dict access, in item / attribute / index / get()
   forms; TLC (DotDictTrace) accepts the result, the returned value and the resulting tree iff the spec allows them.
V: random histories of catalogue operations on one dotdict; copy / deepcopy independence (the untouched side must
   stay equal to the state, the mutated side must equal the spec's result -- via the same trace validation).
"""
import json
import os
import random
import tempfile

from .. import core, tlc

LEVEL = "model_checking"
CONSTS = ["CONSTANTS", " KeyNames <- MCKeyNames", " Reserved = {4}"]


def validate(ctx, lines, name):
    bad = []
    fd, path = tempfile.mkstemp(prefix="dd_", suffix=".ndjson")
    with os.fdopen(fd, "w") as f:
        for ln in lines:
            f.write(json.dumps(ln, separators=(",", ":")) + "\n")
    try:
        res = tlc.run("DotDictTrace", "DotDictTrace.cfg", env={"TRACE_FILE": path}, timeout=2400)
    finally:
        os.unlink(path)
    ctx.ev.tlc("validate:" + name, res)
    failed = {j["tid"]: j for j in res.json if "tid" in j}
    for j in res.json:
        if j.get("known") == "F7":
            ln = lines[j["ktid"] - 1]
            e = ln["ev"][j["kat"] - 1]
            ctx.violation("known_F7", {"finding": "F7", "op": e["o"]["o"], "key": e["o"]["key"], "from": ln["from"],
                                       "fan": ln["fan"], "ev": ln["ev"][:j["kat"]]}, what="leading-dot single-component key")
    expect = sum(len(ln["ev"]) + 1 for ln in lines) - sum(len(lines[t - 1]["ev"]) + 1 - j["at"] for t, j in failed.items())
    if res.distinct != expect:
        ctx.machinery.append("validate %s: TLC visited %d states, expected %d" % (name, res.distinct, expect))
    for t, j in failed.items():
        bad.append((lines[t - 1], j["at"]))
    return bad


def main(ctx):
    from .. import ddlib
    ev = ctx.ev
    wd = core.workdir()
    rng = random.Random(ctx.seed)
    depth = 2 if ctx.quick else 3
    rich = "FALSE" if ctx.quick else "TRUE"
    ev.rule = ("cases: (state, operation): states = every tree reachable by <= %d mutating catalogue operations from the "
               "empty dotdict (TLC), operations = get/in/set/del/pop/setdefault/keys over every token sequence of the "
               "catalogue (plain names, l[0]/l[1], leading dot, '..', reserved name) x values (leaf, empty / nested / "
               "dotted-key plain dict, list of mappings, empty list); random histories; copy independence.  "
               "Non-trivial: mutating operation, or a read of an existing path." % (1 if ctx.quick else 2))
    ev.assumptions = ["PERMISSIVE: an empty level may or may not be listed by iteration; a refused assignment may leave "
                      "empty levels for a prefix of its path; membership of an out-of-range list index may be False or "
                      "raise; reserved names are only generated as the final key; del/pop of list elements not generated",
                      "leaf values are small integers (opaque to dotdict)"]
    cfgp = os.path.join(wd, "dd_model.cfg")
    tlc.write_cfg(cfgp, ["SPECIFICATION Spec", "CHECK_DEADLOCK FALSE", "VIEW SDView", "INVARIANT WellFormed",
                         "INVARIANT IterationMatchesLookup", "INVARIANT InteriorLookup", "PROPERTY ReadOnly",
                         "PROPERTY DelOnlyLeaves"] + CONSTS + [" MaxDepth = %d" % depth, " Rich = %s" % rich])
    res = tlc.run("MC_DotDict", cfgp, spec_dir=wd, timeout=2400)
    ev.tlc("model", res)
    if res.violated:
        ctx.spec_violation(res, "model")
    cfge = os.path.join(wd, "dd_emit.cfg")
    tlc.write_cfg(cfge, ["INIT Init", "NEXT MutNext", "CONSTRAINT EmitState", "VIEW StateView", "CHECK_DEADLOCK FALSE"]
                  + CONSTS + [" MaxDepth = %d" % (1 if ctx.quick else 2), " Rich = %s" % rich])
    res = tlc.run("MC_DotDict", cfge, spec_dir=wd, timeout=2400)
    ev.tlc("emit", res)
    ops = [j["o"] for j in res.json if j.get("k") == "op"]
    emitted_json = res.json
    states, seen = [], set()
    for j in res.json:
        if j.get("k") == "state":
            key = json.dumps(sorted(json.dumps(e) for e in j["S"]))
            if key not in seen:
                seen.add(key)
                states.append(j["S"])
    if not ops or len(states) < res.distinct:          # (states that differ only in what the VIEW hides are emitted too)
        ctx.machinery.append("emission incomplete: %d ops, %d/%d states" % (len(ops), len(states), res.distinct))
        return
    if not ctx.quick and len(states) > 1500:
        states = states[:1] + rng.sample(states[1:], 1499)
    jobs = []
    for n, st in enumerate(states):
        for k in range(0, len(ops), 120):
            jobs.append((st, ops[k:k + 120], n + k))
    lines = core.pmap(ddlib.exec_fan, jobs, chunksize=2)
    nh = 300 if ctx.quick else 4000
    mut = [o for o in ops if o["o"] in ("set", "del", "pop", "setdefault")]
    hjobs = []
    for h in range(nh):
        seq = [rng.choice(mut if rng.random() < 0.6 else ops) for _ in range(12)]
        hjobs.append(([], seq, h))
    lines += core.pmap(ddlib.exec_history, hjobs, chunksize=8)
    for ln in lines:
        for e in ln["ev"]:
            nt = e["o"]["o"] in ("set", "del", "pop", "setdefault") or e["ok"]
            ev.case(key=(json.dumps(ln["from"]) if ln["fan"] else id(ln), e["o"]["o"], e["o"]["key"], json.dumps(e["o"]["val"])),
                    nontrivial=nt)
    ex = lines[len(lines) // 3]
    ev.sample({"from": ex["from"], "event": ex["ev"][len(ex["ev"]) // 2]})
    ev.sample({"history": [{"key": e["o"]["key"], "o": e["o"]["o"], "ok": e["ok"]} for e in lines[-1]["ev"]]})
    bad = []
    CH = 400
    for k in range(0, len(lines), CH):
        bad += validate(ctx, lines[k:k + CH], "ops")
    classes = {}
    for ln, at in bad:
        e = ln["ev"][at - 1]
        kk = (e["o"]["o"], e["o"]["key"], e["o"]["val"]["k"], "ok=%s" % e["ok"])
        classes[kk] = classes.get(kk, 0) + 1
        if os.environ.get("VERIF_DEBUG") and not e["o"]["key"].startswith("."):
            print("  DEBUG", json.dumps(ln["from"] if ln["fan"] else [x["o"]["o"] + " " + x["o"]["key"] + " " + json.dumps(x["S"]) for x in ln["ev"][:at]]), json.dumps(e))
    for kk in sorted(classes):
        print("  rejected-class %s x%d" % (" ".join(map(str, kk)), classes[kk]))
    for ln, at in bad:
        e = ln["ev"][at - 1]
        rec = {"from": ln["from"], "fan": ln["fan"], "ev": ln["ev"][:at], "op": e["o"]["o"], "key": e["o"]["key"]}
        ctx.violation("%s_%s" % (e["o"]["o"], e["o"]["key"]), rec,
                      what="dotdict %s %r from %s: ok=%s res=%s after=%s forms=%s" % (
                          e["o"]["o"], e["o"]["key"], json.dumps(ln["from"] if ln["fan"] else "(history)"), e["ok"],
                          json.dumps(e["res"]), json.dumps(e["S"]), e["formsok"]))
    # copies: the untouched side keeps the state, the mutated side is validated as an ordinary step
    cjobs = []
    inlist = [o for o in mut if o["o"] == "set" and len(o["tok"]) >= 2 and o["tok"][0][1] >= 0]
    sample_states = [s for s in states if s][:60] if ctx.quick else [s for s in states if s][:400]
    for st in sample_states:
        for o in rng.sample(mut, 6):
            for deep in (False, True):
                for side in ("copy", "orig"):
                    cjobs.append((st, o, deep, side))
        if any(seg[1] >= 0 for e in st for seg in e["p"]):
            # lists that also hold plain values next to their levels: assignments THROUGH a list element on one side of the copy
            for o in rng.sample(inlist, min(len(inlist), 6)):
                for deep in (False, True):
                    for side in ("copy", "orig"):
                        cjobs.append((st, o, deep, side, True))
    cres = core.pmap(ddlib.exec_copy, cjobs, chunksize=16)
    clines = []
    for r in cres:
        ev.case(key=("copy", json.dumps(r["from"]), r["o"]["key"], r["deep"], r["side"]), nontrivial=True)
        canon = lambda es: sorted(json.dumps(e, sort_keys=True) for e in es)
        if not r["same"] or not r["indep"] or (not r["mixed"] and canon(r["other"]) != canon(r["from"])):
            ctx.violation("copy_%s" % r["o"]["key"], dict(r, op="copy"),
                          what="copy (deep=%s) not independent: mutating the %s with %s %r changed the other side to %s" % (
                              r["deep"], r["side"], r["o"]["o"], r["o"]["key"], json.dumps(r["other"])))
        if r["mixed"]:
            continue                    # (the mutated side of a mixed list is not a state of the model: independence only)
        clines.append({"fan": True, "from": r["from"], "ev": [{"o": r["o"], "ok": r["ok"], "res": ddlib.NOKEY, "S": r["S"],
                                                             "items": [], "selfok": True, "formsok": True}]})
    # mutated side: only state comparison (result values of pop/setdefault are checked in the main run)
    clines = [c for c in clines if c["ev"][0]["o"]["o"] in ("set", "del")]
    for ln, at in validate(ctx, clines, "copies") if clines else []:
        e = ln["ev"][0]
        ctx.violation("copyside_%s" % e["o"]["key"], {"from": ln["from"], "ev": ln["ev"], "op": "copy-mutate"},
                      what="operation on a copy differs from the same operation on the original: %s" % json.dumps(e))
    # every reserved name (MC_DotDict!ReservedNames), every assignment form
    rn = [j["names"] for j in emitted_json if j.get("k") == "reserved"]
    if not rn:
        ctx.machinery.append("no reserved names emitted")
        return
    for name in rn[0]:
        ev.case(key=("reserved", name), nontrivial=True)
        for prob in ddlib.reserved_probe(name):
            ctx.violation("reserved_%s" % name, {"reserved": name, "problem": prob}, what="reserved name: " + prob)
    ev.exhaustive = True
    ev.extra.update({"operations": len(ops), "states": len(states), "histories": nh, "copy_cases": len(cjobs)})


def replay(ctx, path):
    from .. import ddlib
    rec = json.load(open(path))
    if rec.get("op") == "copy":
        r = ddlib.exec_copy((rec["from"], rec["o"], rec["deep"], rec["side"]))
        print("other side now:", json.dumps(r["other"]), "state:", json.dumps(rec["from"]))
        return 0 if sorted(map(json.dumps, r["other"])) == sorted(map(json.dumps, rec["from"])) else 1
    ops = [e["o"] for e in rec["ev"]]
    ln = (ddlib.exec_fan if rec["fan"] else ddlib.exec_history)((rec["from"], ops, 0))
    for e in ln["ev"]:
        print(e["o"]["o"], repr(e["o"]["key"]), "ok=%s" % e["ok"], "res=%s" % json.dumps(e["res"]), "after=%s" % json.dumps(e["S"]))
    bad = validate(ctx, [ln], "replay")
    print("verdict:", "rejected at %d" % bad[0][1] if bad else "accepted")
    return 1 if bad else 0
