"""C06 -- exactly one matching reply per request, delivered in request order.

M: spec/Server.tla: TLC explores every interleaving of Recv / Proc / Send / Eof / Close for streams of 1..2 frames of the
   pipeline frame set (OneReplyEach, ProcOnlyComplete, ClosedStays).
R: TLC-emitted scenarios of 1..4 frames (all service kinds, successful and failing, bundles, unroutable request,
   Unregister, distinct sender contexts and session handles), written to the real server in one chunk (every request
   before any reply is read), one chunk per frame and random chunkings.
V: TLC (ServerTrace) accepts a session only if every complete request frame is followed by exactly one reply whose
   header echoes the request's command, sender context and session handle, whose SendRRData framing (null address
   item + one data item) and CIP reply (service | 0x80, status, data) are what the spec computes from the tag model;
   an unroutable request gets one frame with non-zero encapsulation status; Register returns a non-zero handle;
   Unregister gets nothing and the session ends.
"""
import json
import random

from .. import core, serverlib

LEVEL = "model_checking"


def main(ctx):
    ev = ctx.ev
    wd = core.workdir()
    rng = random.Random(ctx.seed)
    ev.rule = ("cases: (scenario, schedule): every 1- and 2-frame stream over the pipeline frame set (26 frames), sampled "
               "3- and 4-frame streams, 1- and 2-frame streams on a server with a request size limit at / one below a frame's payload length, and connected sessions (Forward Open, SendUnitData, Forward Close, session-ending frames); schedules: whole stream in one chunk, one chunk per frame, 2 random chunkings.  "
               "Non-trivial: >= 2 frames, or a failing / unroutable / silent request.")
    ev.assumptions = ["Register's random session handle only required to be non-zero",
                      "List Identity / Services / Interfaces replies: the payload is that of the simulator's default Identity object and its one Communications service (ServerOps!ListPayload)"]
    serverlib.run_model(ctx, wd, 1 if ctx.quick else 2, "any", "pipeline", "pipe")
    scs = serverlib.emit_scenarios(ctx, wd, 2, "any", "pipeline", "pipe2")
    if ctx.machinery:
        return
    singles = [s for s in scs if len(s["sc"]["frames"]) == 1]
    pairs = [s for s in scs if len(s["sc"]["frames"]) == 2]
    if ctx.quick:
        pairs = rng.sample(pairs, 250)
    # longer pipelines are composed from the emitted single frames (octets by the spec)
    longer = []
    for n, cnt in ((3, 60 if ctx.quick else 600), (4, 30 if ctx.quick else 300)):
        for _ in range(cnt):
            fs = [rng.choice(singles) for _ in range(n)]
            ends, at = [], 0
            for f in fs:
                at += len(f["fb"][0])
                ends.append(at)
            sc = dict(fs[0]["sc"], frames=[f["sc"]["frames"][0] for f in fs])
            longer.append({"sc": sc, "fb": [f["fb"][0] for f in fs], "ends": ends})
    # connected messaging: Forward Open (small / large, target- or originator-chosen id), SendUnitData with sequence counts, Forward
    # Close, mixed with frames that make the server end the session (the connection table is observed after every reply and
    # after the session)
    serverlib.run_model(ctx, wd, 1 if ctx.quick else 2, "any", "connected", "conn")
    csingles = serverlib.emit_scenarios(ctx, wd, 1, "any", "connected", "conn1")
    if ctx.machinery:
        return
    byk = {}
    for c in csingles:
        byk.setdefault(c["sc"]["frames"][0]["kind"], []).append(c)
    enders = [x for x in singles if x["sc"]["frames"][0]["kind"] in ("unregister", "badcmd") or
              (x["sc"]["frames"][0]["kind"] == "rr" and x["sc"]["frames"][0]["req"]["tag"] == 0)]
    conn = []
    for _ in range(150 if ctx.quick else 2000):
        fs = [rng.choice(byk["fwdopen"])]
        for _ in range(rng.randint(1, 4)):
            fs.append(rng.choice(byk["unit"] * 3 + byk["fwdopen"] + byk["fwdclose"]))
        tail = rng.random()
        if tail < 0.4:
            fs.append(rng.choice(byk["fwdclose"]))
        elif tail < 0.6:
            fs.append(rng.choice(enders))
        ends, at = [], 0
        for f in fs:
            at += len(f["fb"][0])
            ends.append(at)
        conn.append({"sc": dict(fs[0]["sc"], frames=[f["sc"]["frames"][0] for f in fs]), "fb": [f["fb"][0] for f in fs], "ends": ends})
    # the request size limit option: pipelines on a server whose limit is at, or one below, the payload length of one of the frames
    serverlib.run_model(ctx, wd, 1 if ctx.quick else 2, "any", "limited", "lim")
    limited = serverlib.emit_scenarios(ctx, wd, 2, "any", "limited", "lim2")
    if ctx.machinery:
        return
    if ctx.quick:
        limited = rng.sample(limited, 200)
    jobs = []
    for s in conn[::5]:                 # the session ends inside a frame: truncated schedules
        L = s["ends"][-1]
        jobs.append((s, [L - rng.randint(1, 20)]))
    for s in singles + pairs + longer + conn + limited:
        L = s["ends"][-1]
        per = [s["ends"][0]] + [s["ends"][i] - s["ends"][i - 1] for i in range(1, len(s["ends"]))]
        scheds = [[L], per]
        for _ in range(2):
            sizes, left = [], L
            while left:
                n = min(left, rng.choice([1, 7, 24, 30, 64, 200]))
                sizes.append(n)
                left -= n
            scheds.append(sizes)
        for sz in scheds:
            jobs.append((s, sz))
        if len(s["ends"]) >= 2 and len(jobs) % 7 == 0:
            jobs.append((s, per, 0.002))          # the response delay option: later requests arrive while a reply is being delayed
    # Register Session when the random source happens to draw 0: the handle must be non-zero all the same
    for s in [x for x in singles + pairs if x["sc"]["frames"][0]["kind"] == "register"][:12]:
        jobs.append((s, [s["ends"][-1]], None, "zero-draw"))
    lines = core.pmap(serverlib.exec_session, jobs, chunksize=8)
    for (s, sz), ln in zip([j[:2] for j in jobs], lines):
        fr = s["sc"]["frames"]
        nt = len(fr) >= 2 or fr[0]["kind"] in ("unregister", "badcmd", "fwdopen", "unit") or (fr[0]["kind"] == "rr" and fr[0]["req"]["svc"] != "read")
        ev.case(key=(json.dumps(s["fb"]), json.dumps(sz)), nontrivial=nt)
    mid = lines[-1]
    ev.sample({"frames": [f["kind"] + ":" + (f["req"]["svc"] if f["kind"] == "rr" else "") for f in mid["sc"]["frames"]],
               "sizes": mid["sizes"], "events": [{k: (v if k != "b" else v[:44]) for k, v in e.items()} for e in mid["ev"]]})
    bad = serverlib.validate(ctx, lines, "C06")
    serverlib.report(ctx, bad, "C06")
    ev.extra["sessions"] = len(lines)


replay = serverlib.replay
