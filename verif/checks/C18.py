"""C18 -- history replay delivers every logged record exactly once, in order, on time.

M: spec/History.tla states the delivery rule from the statement (start file, replayable records, due = timestamp <=
   replay clock + look-ahead, a load returns the next undelivered due records up to its limit); MC_History explores every
   scenario of the bounded domain under every schedule of clock ticks and load(limit) calls: ExactlyOnceInOrder,
   NotEarly, NotLate, <>all delivered (weak fairness).
R/V: every emitted scenario (1..3 files, 1..2 records each, equal / increasing timestamps 0..3 also across file boundaries,
   five start points, factors 1 and 2, look-ahead 0 and 1) is written with the real logger (rotated names; gzip, bz2,
   plain+gz duplicates; a comment and a corrupt record after each first record), replayed by the real loader under a
   virtual clock with load(limit = None / 1) called at every tick until it returns nothing; TLC (HistoryTrace) accepts a
   run iff every call returned exactly what the rule says, completion is reported only after everything was delivered,
   and the final register map equals the last logged values.
"""
import json
import os
import random
import tempfile

from .. import core, tlc

LEVEL = "model_checking"


def features(sc):
    files = sc["files"]
    single = any(len(set(r["ts"] for r in f)) == 1 for f in files)
    equal_boundary = any(files[i][-1]["ts"] == files[i + 1][0]["ts"] for i in range(len(files) - 1))
    return single, equal_boundary


def validate(ctx, lines, name):
    bad = []
    CH = 4000
    for k in range(0, len(lines), CH):
        ch = lines[k:k + CH]
        fd, path = tempfile.mkstemp(prefix="hist_", suffix=".ndjson")
        with os.fdopen(fd, "w") as f:
            for ln in ch:
                f.write(json.dumps({"sc": ln["sc"], "ev": ln["ev"], "values": ln["values"]}, separators=(",", ":")) + "\n")
        try:
            res = tlc.run("HistoryTrace", "HistoryTrace.cfg", env={"TRACE_FILE": path}, timeout=2400)
        finally:
            os.unlink(path)
        ctx.ev.tlc("validate:" + name, res)
        stuck = {}
        for j in res.json:
            if "tid" not in j:
                continue
            if j["why"] in ("records-lost", "never-completes", "final-register-map-wrong"):
                bad.append((ch[j["tid"] - 1], j["at"], j["why"]))
            else:
                stuck[j["tid"]] = j
        expect = sum(len(ln["ev"]) + 1 for ln in ch) - sum(len(ch[t - 1]["ev"]) + 1 - j["at"] for t, j in stuck.items())
        if res.distinct != expect:
            ctx.machinery.append("validate %s: TLC visited %d states, expected %d" % (name, res.distinct, expect))
        for t, j in stuck.items():
            bad.append((ch[t - 1], j["at"], j["why"]))
    return bad


def main(ctx):
    from .. import histlib
    ev = ctx.ev
    wd = core.workdir()
    rng = random.Random(ctx.seed)
    deep = "FALSE" if ctx.quick else "TRUE"
    cfgm = os.path.join(wd, "hist_mc.cfg")
    tlc.write_cfg(cfgm, ["SPECIFICATION MSpec", "CHECK_DEADLOCK FALSE", "INVARIANT ExactlyOnceInOrder", "INVARIANT MNotEarly",
                         "PROPERTY NotLate", "PROPERTY Completes", "CONSTANTS", " Deep = FALSE"])
    res = tlc.run("MC_History", cfgm, spec_dir=wd, timeout=2400)
    ev.tlc("model", res)
    if res.violated:
        ctx.spec_violation(res, "model")
    cfge = os.path.join(wd, "hist_emit.cfg")
    tlc.write_cfg(cfge, ["INIT EInit", "NEXT ENext", "CHECK_DEADLOCK FALSE", "CONSTANTS", " Deep = %s" % deep])
    res = tlc.run("MC_History", cfge, spec_dir=wd, timeout=2400)
    ev.tlc("emit", res)
    scs = [j for j in res.json if j.get("k") == "hist"]
    if len(scs) != res.distinct or not scs:
        ctx.machinery.append("scenario emission incomplete %d/%d" % (len(scs), res.distinct))
        return
    if not ctx.quick and len(scs) > 60000:
        scs = rng.sample(scs, 60000)
    ev.rule = ("cases: (scenario, load limit, file form): every layout of 1..4 (6) records with non-decreasing timestamps 0..3 "
               "split into 1..3 files of 1..2 (3) records x start {-1,0,1,2,4} x factor {1,2} x look-ahead {0,1}, each replayed "
               "with limit None and 1 and in one of five file forms (plain, gz, bz2, plain+gz duplicates, comment+corrupt "
               "lines).  Non-trivial: more than one file, or equal timestamps, or a start inside the history.")
    ev.assumptions = ["integer-second timestamps (the millisecond epsilon of timestamp comparison is C17's subject)",
                      "load() is called at every wall-clock tick until it returns no events, as the loader documents"]
    jobs = []
    for n, j in enumerate(scs):
        jobs.append((j, 0, n % 5))
        jobs.append((j, 1, (n + 2) % 5))
    lines = core.pmap(histlib.run_scenario, jobs, chunksize=32)
    for ln in lines:
        sc = ln["sc"]
        nt = len(sc["files"]) > 1 or sc["start"] > 0
        ev.case(key=(json.dumps(sc), ln["limit"], ln["variant"]), nontrivial=nt)
    ev.sample({"scenario": lines[len(lines) // 2]["sc"], "limit": lines[len(lines) // 2]["limit"], "file_form": lines[len(lines) // 2]["variant"],
               "loads": lines[len(lines) // 2]["ev"][:8]})
    bad = validate(ctx, lines, "replay")
    classes = {}
    for ln, at, why in bad:
        single, eqb = features(ln["sc"])
        key = (why, "single-timestamp-file" if single else "-", "equal-timestamp-at-file-boundary" if eqb else "-")
        classes.setdefault(key, []).append((ln, at))
    for key in sorted(classes):
        ln, at = classes[key][0]
        print("  rejected-class %s x%d  e.g. files %s start %s factor %s lookahead %s limit %s" % (
            " ".join(key), len(classes[key]), json.dumps([[r["ts"] for r in f] for f in ln["sc"]["files"]]), ln["sc"]["start"],
            ln["sc"]["factor"], ln["sc"]["lookahead"], ln["limit"]))
    for key in sorted(classes):
        for ln, at in classes[key]:
            single, eqb = features(ln["sc"])
            rec = {"why": key[0], "scenario": ln["sc"], "limit": ln["limit"], "variant": ln["variant"], "loads": ln["ev"][:at + 1],
                   "values": ln["values"], "single_timestamp_file": single, "equal_timestamp_at_file_boundary": eqb, "exc": ln.get("exc", "")}
            ctx.violation("history_%s" % key[0], rec, what="history %s: files(ts) %s start %s factor %s lookahead %s limit %s: loads %s" % (
                key[0], json.dumps([[r["ts"] for r in f] for f in ln["sc"]["files"]]), ln["sc"]["start"], ln["sc"]["factor"],
                ln["sc"]["lookahead"], ln["limit"], json.dumps(ln["ev"][:at + 1])[:400]))
    ev.exhaustive = ctx.quick
    ev.extra["scenarios"] = len(scs)
    ev.extra["runs_without_single_timestamp_file"] = sum(1 for ln in lines if not features(ln["sc"])[0])


def replay(ctx, path):
    from .. import histlib
    rec = json.load(open(path))
    ln = histlib.run_scenario(({"sc": rec["scenario"]}, rec["limit"], rec["variant"]))
    print(json.dumps(ln["ev"], indent=None)[:1500])
    bad = validate(ctx, [ln], "replay")
    print("verdict:", bad[0][2] if bad else "accepted")
    return 1 if bad else 0
