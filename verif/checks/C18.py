"""C18 -- history replay delivers every logged record exactly once, in order, on time.

M: spec/History.tla states the delivery rule from the statement (start file, replayable records, due = timestamp <=
   replay clock + look-ahead, a load returns the next undelivered due records up to its limit); MC_History explores every
   scenario of the bounded domain under every schedule of clock ticks and load(limit) calls: ExactlyOnceInOrder,
   NotEarly, NotLate, <>all delivered (weak fairness).
R/V: every emitted scenario (1..3 files, 1..2 records each, equal / increasing timestamps 0..3 also across file boundaries,
   five start points, factors 1 and 2, look-ahead 0 and 1) is written with the real logger (rotated names; gzip, bz2,
   plain+gz duplicates; a comment and a corrupt record after each first record), replayed by the real loader under a
   virtual clock with load(limit = None / 1) called at every tick until it returns nothing; TLC (HistoryTrace) accepts a
   run iff every call returned exactly what the rule says, completion is reported only after everything was delivered,
   and the final register map equals the last logged values.
I: every run is also validated against spec/Loader.tla, the loader's algorithm as coded (file choice by first timestamp, the
   `strict' re-open guard, AWAITING / SWITCHING / EXHAUSTED states, the look-ahead queue).  A run the property rejects counts as
   the known finding F4 only if it is exactly that algorithm's behaviour on a history containing a single-timestamp file;
   any other rejected run is a new violation.
"""
import json
import os
import random
import tempfile

from .. import core, tlc

LEVEL = "model_checking"


def features(sc):
    files = sc["files"]
    single = any(len(set(r["ts"] for r in f)) == 1 for f in files)
    equal_boundary = any(files[i][-1]["ts"] == files[i + 1][0]["ts"] for i in range(len(files) - 1))
    return single, equal_boundary


def validate(ctx, lines, name):
    bad = []
    CH = 4000
    for k in range(0, len(lines), CH):
        ch = lines[k:k + CH]
        fd, path = tempfile.mkstemp(prefix="hist_", suffix=".ndjson")
        with os.fdopen(fd, "w") as f:
            for ln in ch:
                f.write(json.dumps({"sc": ln["sc"], "ev": ln["ev"], "values": ln["values"]}, separators=(",", ":")) + "\n")
        try:
            res = tlc.run("HistoryTrace", "HistoryTrace.cfg", env={"TRACE_FILE": path}, timeout=2400)
        finally:
            os.unlink(path)
        ctx.ev.tlc("validate:" + name, res)
        stuck = {}
        for j in res.json:
            if "tid" not in j:
                continue
            if j["why"] in ("records-lost", "never-completes", "final-register-map-wrong"):
                bad.append((ch[j["tid"] - 1], j["at"], j["why"]))
            else:
                stuck[j["tid"]] = j
        expect = sum(len(ln["ev"]) + 1 for ln in ch) - sum(len(ch[t - 1]["ev"]) + 1 - j["at"] for t, j in stuck.items())
        if res.distinct != expect:
            ctx.machinery.append("validate %s: TLC visited %d states, expected %d" % (name, res.distinct, expect))
        for t, j in stuck.items():
            bad.append((ch[t - 1], j["at"], j["why"]))
    return bad


def impl_scenario(ln):
    """the scenario as the coded algorithm sees it: every record flagged, plus the unparsable record the harness inserted
    after the first record of every file in file form 4 (same timestamp, no payload)"""
    sc = ln["sc"]
    files = []
    for f in sc["files"]:
        recs = [dict(r, bad=False) for r in f]
        if ln["variant"] == 4:
            recs.insert(1, {"ts": f[0]["ts"], "reg": 0, "val": 0, "bad": True})
        files.append(recs)
    return dict(sc, files=files)


def validate_impl(ctx, lines, name):
    """conformance to Loader.tla (the algorithm as coded): returns the set of indices of runs that differ from it"""
    differs = set()
    CH = 4000
    for k in range(0, len(lines), CH):
        ch = lines[k:k + CH]
        fd, path = tempfile.mkstemp(prefix="hist_impl_", suffix=".ndjson")
        with os.fdopen(fd, "w") as f:
            for ln in ch:
                f.write(json.dumps({"sc": impl_scenario(ln), "ev": ln["ev"]}, separators=(",", ":")) + "\n")
        try:
            res = tlc.run("LoaderTrace", "LoaderTrace.cfg", env={"TRACE_FILE": path}, timeout=2400)
        finally:
            os.unlink(path)
        ctx.ev.tlc("coded-algorithm:" + name, res)
        stuck = {j["tid"]: j for j in res.json if "tid" in j}
        expect = sum(len(ln["ev"]) + 1 for ln in ch) - sum(len(ch[t - 1]["ev"]) + 1 - j["at"] for t, j in stuck.items())
        if res.distinct != expect:
            ctx.machinery.append("coded-algorithm %s: TLC visited %d states, expected %d" % (name, res.distinct, expect))
        for t in stuck:
            differs.add(k + t - 1)
    return differs


def main(ctx):
    from .. import histlib
    ev = ctx.ev
    wd = core.workdir()
    rng = random.Random(ctx.seed)
    deep = "FALSE" if ctx.quick else "TRUE"
    cfgm = os.path.join(wd, "hist_mc.cfg")
    tlc.write_cfg(cfgm, ["SPECIFICATION MSpec", "CHECK_DEADLOCK FALSE", "INVARIANT ExactlyOnceInOrder", "INVARIANT MNotEarly",
                         "PROPERTY NotLate", "PROPERTY Completes", "CONSTANTS", " Deep = FALSE"])
    res = tlc.run("MC_History", cfgm, spec_dir=wd, timeout=2400)
    ev.tlc("model", res)
    if res.violated:
        ctx.spec_violation(res, "model")
    cfge = os.path.join(wd, "hist_emit.cfg")
    tlc.write_cfg(cfge, ["INIT EInit", "NEXT ENext", "CHECK_DEADLOCK FALSE", "CONSTANTS", " Deep = %s" % deep])
    res = tlc.run("MC_History", cfge, spec_dir=wd, timeout=2400)
    ev.tlc("emit", res)
    scs = [j for j in res.json if j.get("k") == "hist"]
    if len(scs) != res.distinct or not scs:
        ctx.machinery.append("scenario emission incomplete %d/%d" % (len(scs), res.distinct))
        return
    if not ctx.quick and len(scs) > 60000:
        scs = rng.sample(scs, 60000)
    ev.rule = ("cases: (scenario, load limit, file form): every layout of 1..4 (6) records with non-decreasing timestamps 0..3 "
               "split into 1..3 files of 1..2 (3) records x start {-1,0,1,2,4} x factor {1,2} x look-ahead {0,1}, each replayed "
               "with limit None and 1 and in one of seven file forms (plain, gz, bz2, plain+gz duplicates, comment+corrupt "
               "lines, comments first and last, un-openable entries beside the files).  Non-trivial: more than one file, or equal timestamps, or a start inside the history.")
    ev.assumptions = ["load() schedules: at every tick either repeated until it returns nothing (as the loader documents), or exactly once (limit 1 / unlimited)",
                      "integer-second timestamps (the millisecond epsilon of timestamp comparison is C17's subject)"]
    jobs = []
    for n, j in enumerate(scs):
        jobs.append((j, 0, n % 7))
        jobs.append((j, 1, (n + 2) % 7))
        if n % 3 == 0:
            jobs.append((j, 1, (n + 4) % 7, 1))            # exactly one load(limit=1) per tick: the rest is left for later ticks
        if n % 5 == 0:
            jobs.append((j, 0, (n + 5) % 7, 1))            # exactly one unlimited load per tick
    lines = core.pmap(histlib.run_scenario, jobs, chunksize=32)
    for ln in lines:
        sc = ln["sc"]
        nt = len(sc["files"]) > 1 or sc["start"] > 0
        ev.case(key=(json.dumps(sc), ln["limit"], ln["variant"], ln.get("per_tick", 12)), nontrivial=nt)
    ev.sample({"scenario": lines[len(lines) // 2]["sc"], "limit": lines[len(lines) // 2]["limit"], "file_form": lines[len(lines) // 2]["variant"],
               "loads": lines[len(lines) // 2]["ev"][:8]})
    for i, ln in enumerate(lines):
        ln["idx"] = i
    bad = validate(ctx, lines, "replay")
    # every run is also compared with the algorithm as coded (Loader.tla): a run the property rejects is the known finding F4
    # only if it is exactly that algorithm's behaviour on a history with a single-timestamp file
    differs = validate_impl(ctx, lines, "replay")
    rejected = set(ln["idx"] for ln, at, why in bad)
    drift = sorted(differs - rejected)
    if drift:
        print("  SPEC-DRIFT: %d runs satisfy the property but differ from the coded-algorithm model (Loader.tla), e.g. files %s start %s" % (
            len(drift), json.dumps([[r["ts"] for r in f] for f in lines[drift[0]]["sc"]["files"]]), lines[drift[0]]["sc"]["start"]))
    ev.extra["runs_conforming_to_coded_algorithm"] = len(lines) - len(differs)
    ev.extra["spec_drift_runs"] = len(drift)
    classes = {}
    for ln, at, why in bad:
        single, eqb = features(ln["sc"])
        key = (why, "single-timestamp-file" if single else "-", "equal-timestamp-at-file-boundary" if eqb else "-",
               "as-coded" if ln["idx"] not in differs else "NOT-the-coded-algorithm")
        classes.setdefault(key, []).append((ln, at))
    for key in sorted(classes):
        ln, at = classes[key][0]
        print("  rejected-class %s x%d  e.g. files %s start %s factor %s lookahead %s limit %s" % (
            " ".join(key), len(classes[key]), json.dumps([[r["ts"] for r in f] for f in ln["sc"]["files"]]), ln["sc"]["start"],
            ln["sc"]["factor"], ln["sc"]["lookahead"], ln["limit"]))
    for key in sorted(classes):
        for ln, at in classes[key]:
            single, eqb = features(ln["sc"])
            rec = {"why": key[0], "scenario": ln["sc"], "limit": ln["limit"], "variant": ln["variant"], "loads": ln["ev"][:at + 1],
                   "values": ln["values"], "single_timestamp_file": single, "equal_timestamp_at_file_boundary": eqb, "exc": ln.get("exc", ""),
                   "conforms_to_coded_algorithm": ln["idx"] not in differs}
            ctx.violation("history_%s" % key[0], rec, what="history %s: files(ts) %s start %s factor %s lookahead %s limit %s: loads %s" % (
                key[0], json.dumps([[r["ts"] for r in f] for f in ln["sc"]["files"]]), ln["sc"]["start"], ln["sc"]["factor"],
                ln["sc"]["lookahead"], ln["limit"], json.dumps(ln["ev"][:at + 1])[:400]))
    ev.exhaustive = ctx.quick
    ev.extra["scenarios"] = len(scs)
    ev.extra["runs_without_single_timestamp_file"] = sum(1 for ln in lines if not features(ln["sc"])[0])


def replay(ctx, path):
    from .. import histlib
    rec = json.load(open(path))
    ln = histlib.run_scenario(({"sc": rec["scenario"]}, rec["limit"], rec["variant"]))
    print(json.dumps(ln["ev"], indent=None)[:1500])
    bad = validate(ctx, [ln], "replay")
    print("verdict:", bad[0][2] if bad else "accepted")
    return 1 if bad else 0
