"""Shared plumbing of the checks: context, violation reporting, tree selection, worker pool."""
import atexit
import json
import logging
import multiprocessing
import os
import random
import shutil
import sys
import tempfile
import time
import traceback

from . import evidence, findings, tlc

ROOT = evidence.ROOT
NPROC = int(os.environ.get("VERIF_PROCS", "16"))


def select_tree():
    """Make `import cpppo` resolve to CPPPO_ROOT (default /repo: the editable install already does)."""
    root = os.environ.get("CPPPO_ROOT", "/repo")
    root = os.path.abspath(root)
    if root != "/repo":
        d = tempfile.mkdtemp(prefix="cpppo_tree_")
        os.symlink(root, os.path.join(d, "cpppo"))
        sys.path.insert(0, d)
        os.environ["PYTHONPATH"] = d + os.pathsep + os.environ.get("PYTHONPATH", "")
        atexit.register(shutil.rmtree, d, True)
    os.environ.setdefault("CPPPO_VERIF", "1")
    logging.disable(logging.CRITICAL)
    import cpppo  # noqa
    got = os.path.dirname(os.path.abspath(cpppo.__file__))
    if os.path.realpath(got) != os.path.realpath(root):
        raise RuntimeError("cpppo imported from %s, wanted %s" % (got, root))
    return root


class Ctx(object):
    def __init__(self, pid, tier, seed, level):
        self.pid, self.tier, self.seed = pid, tier, seed
        self.ev = evidence.Evidence(pid, tier, seed, level)
        self.nviol = 0
        self.reported = set()
        self.machinery = []
        self.rng = random.Random(seed)
        self.quick = tier == "quick"

    def violation(self, name, record, what=""):
        """Report one violating case; `record` is JSON-able and holds everything needed to replay it."""
        record = dict(record)
        record.setdefault("property", self.pid)
        record.setdefault("what", what)
        kf = findings.match(self.pid, record)
        if kf is not None:
            key = ("known", kf.get("id"))
            self.ev.known += 1
            if key not in self.reported:
                self.reported.add(key)
                print("KNOWN-FINDING: property=%s %s: %s" % (self.pid, kf.get("id"), kf.get("what")))
            return False
        self.nviol += 1
        self.ev.violations += 1
        if self.nviol <= 5:
            safe = "".join(c if c.isalnum() or c in "-_" else "_" for c in name)[:60]
            path = evidence.save_replay(self.pid, "%s_%d" % (safe, self.nviol), record)
            print("VIOLATION property=%s replay=%s" % (self.pid, path))
            if what:
                print("  " + what[:400])
        sys.stdout.flush()
        return True

    def spec_violation(self, res, name):
        """A TLC run found the *specification* violating its own property: machinery problem, not the code."""
        self.machinery.append("TLC run %s: %s violated on the specification" % (name, res.violated))

    def tlc(self, name, module, cfg, **kw):
        res = tlc.run(module, cfg, **kw)
        self.ev.tlc(name, res)
        if res.violated or res.postcondition_failed:
            self.spec_violation(res, name)
            sys.stdout.write(res.stdout[-3000:])
        return res

    def finish(self):
        self.ev.write()
        if self.machinery:
            for m in self.machinery:
                print("MACHINERY: " + m)
            return 2
        return 1 if self.nviol else 0


def _init_worker():
    logging.disable(logging.CRITICAL)
    random.seed(0)
    try:                                  # die with the parent (a killed check must not leave workers behind)
        import ctypes
        import signal
        ctypes.CDLL("libc.so.6", use_errno=True).prctl(1, signal.SIGKILL)
    except Exception:
        pass


def pmap(func, items, procs=None, chunksize=None):
    """Apply func over items in a pool of forked workers (cpppo already selected in the parent)."""
    items = list(items)
    procs = procs or NPROC
    if len(items) < 4 or procs == 1:
        return [func(i) for i in items]
    if chunksize is None:
        chunksize = max(1, min(64, len(items) // (procs * 4)))
    ctx = multiprocessing.get_context("fork")
    with ctx.Pool(procs, initializer=_init_worker) as pool:
        return pool.map(func, items, chunksize)


def in_child(func, item):
    """func(item) in a forked child process (for work that starts threads / servers the main process must not own when it forks later)"""
    ctx = multiprocessing.get_context("fork")
    with ctx.Pool(1, initializer=_init_worker) as pool:
        return pool.apply(func, (item,))


def workdir():
    """A scratch directory holding symlinks to all spec modules, for generated MC_/trace modules."""
    d = tempfile.mkdtemp(prefix="verif_spec_")
    for f in os.listdir(tlc.SPEC):
        p = os.path.join(tlc.SPEC, f)
        if os.path.isfile(p):
            os.symlink(p, os.path.join(d, f))
    atexit.register(shutil.rmtree, d, True)
    return d
