"""known_findings.json: genuine defects recorded rather than repaired.  Read-only at run time."""
import json
import os

ROOT = os.path.dirname(os.path.dirname(os.path.abspath(__file__)))
PATH = os.path.join(ROOT, "known_findings.json")


def load():
    if not os.path.exists(PATH):
        return []
    with open(PATH) as f:
        return json.load(f)


def _get(rec, dotted):
    cur = rec
    for k in dotted.split("."):
        if isinstance(cur, dict) and k in cur:
            cur = cur[k]
        else:
            return None
    return cur


def match(pid, record):
    """Return the known (state == 'known') finding whose predicate matches this violation record."""
    for f in load():
        if f.get("property") != pid or f.get("state") != "known":
            continue
        ok = True
        for k, v in f.get("match", {}).items():
            if k.endswith("_in"):
                if _get(record, k[:-3]) not in v:
                    ok = False
            elif _get(record, k) != v:
                ok = False
        if ok:
            return f
    return None
