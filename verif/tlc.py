"""Run TLC / SANY on the specification modules and collect what they print.

Everything TLC needs is under /verif/spec; metadata goes to a temp dir that is removed afterwards.
"""
import json
import os
import re
import shutil
import subprocess
import tempfile
import time

HERE = os.path.dirname(os.path.abspath(__file__))
SPEC = os.path.join(os.path.dirname(HERE), "spec")
JAR = "/opt/veriftools/tla/tla2tools.jar"
CP = JAR + ":/opt/veriftools/tla/CommunityModules-deps.jar"

_STATES = re.compile(r"(\d+) states generated, (\d+) distinct states found")
_SIMSTATES = re.compile(r"(\d+) states checked")
_VIOL = re.compile(r"Error: (Invariant (\S+) is violated|Action property (\S+) is violated|Temporal properties were violated|Deadlock reached|.*)")


class TLCError(Exception):
    """Machinery failure (TLC could not run / parse / evaluate the spec)."""


class Result(object):
    def __init__(self):
        self.stdout = ""
        self.rc = None
        self.generated = 0
        self.distinct = 0
        self.json = []          # decoded PrintT(ToJson(..)) values
        self.prints = []        # other PrintT lines (raw)
        self.errors = []        # "Error: ..." lines
        self.violated = None    # name of violated invariant / property, or None
        self.wall = 0.0
        self.coverage = {}      # action name -> (distinct, total) when -coverage was given
        self.postcondition_failed = False

    @property
    def ok(self):
        return self.rc == 0 and not self.errors


def _parse(res, text):
    res.stdout = text
    for line in text.splitlines():
        s = line.strip()
        if s.startswith('"{') or s.startswith('"['):
            try:
                res.json.append(json.loads(json.loads(s)))
                continue
            except ValueError:
                res.prints.append(s)
                continue
        m = _STATES.search(s)
        if m:
            res.generated, res.distinct = int(m.group(1)), int(m.group(2))
            continue
        m = _SIMSTATES.search(s)
        if m and not res.generated:
            res.generated = res.distinct = int(m.group(1))
        if s.startswith("Error:"):
            res.errors.append(s)
            m = re.search(r"Invariant (\S+) is violated", s)
            if m:
                res.violated = m.group(1)
            m = re.search(r"Action property (\S+) is violated", s)
            if m:
                res.violated = m.group(1)
            if "Temporal properties were violated" in s:
                res.violated = res.violated or "temporal"
            if "Deadlock reached" in s:
                res.violated = res.violated or "deadlock"
            if "Postcondition" in s or "POSTCONDITION" in s:
                res.postcondition_failed = True
        elif s.startswith("<") and ": " in s and s.endswith(")") is False:
            pass
        m = re.match(r"<(\w+) line \d+, col \d+ to line \d+, col \d+ of module (\w+)>: (\d+):(\d+)", s)
        if m:
            name = m.group(1)
            d, t = int(m.group(3)), int(m.group(4))
            od, ot = res.coverage.get(name, (0, 0))
            res.coverage[name] = (od + d, ot + t)
    return res


def _die_with_parent():
    try:
        import ctypes
        import signal
        ctypes.CDLL("libc.so.6", use_errno=True).prctl(1, signal.SIGKILL)
    except Exception:
        pass


def run(module, cfg=None, workers=16, timeout=1200, env=None, simulate=None, depth=None,
        seed=None, coverage=False, deadlock=True, extra=(), spec_dir=SPEC, java_props=(), heap=None):
    """Run TLC on spec/<module>.tla with spec/<cfg> (default <module>.cfg).

    Returns a Result; raises TLCError on parse/semantic/evaluation failures that are not property
    violations (those are reported through Result.violated)."""
    meta = tempfile.mkdtemp(prefix="tlcmeta_")
    cmd = ["java", "-XX:+UseParallelGC", "-Xss64m", "-Djava.io.tmpdir=" + meta]     # TLC's own scratch directories go with the metadir
    if heap:
        cmd.append("-Xmx%s" % heap)
    for p in java_props:
        cmd.append("-D" + p)
    cmd += ["-cp", CP, "tlc2.TLC", "-workers", str(workers), "-metadir", meta, "-noGenerateSpecTE"]
    if cfg:
        cmd += ["-config", cfg]
    if simulate is not None:
        cmd += ["-simulate", simulate]
    if depth is not None:
        cmd += ["-depth", str(depth)]
    if seed is not None:
        cmd += ["-seed", str(seed)]
    if coverage:
        cmd += ["-coverage", "1"]
    if not deadlock:
        cmd += ["-deadlock"]
    cmd += list(extra)
    cmd.append(module if module.endswith(".tla") else module + ".tla")
    e = dict(os.environ)
    e.pop("JAVA_TOOL_OPTIONS", None)
    if env:
        e.update(env)
    t0 = time.time()
    try:
        p = subprocess.run(cmd, cwd=spec_dir, env=e, stdout=subprocess.PIPE, stderr=subprocess.STDOUT,
                           timeout=timeout, universal_newlines=True, errors="replace", preexec_fn=_die_with_parent)
    except subprocess.TimeoutExpired as x:
        out = x.stdout or ""
        if isinstance(out, bytes):
            out = out.decode("utf-8", "replace")
        shutil.rmtree(meta, ignore_errors=True)
        if simulate is not None:
            # simulation runs are bounded by the timeout by design
            res = _parse(Result(), out)
            res.rc = 0 if not res.errors else 1
            res.wall = time.time() - t0
            return res
        raise TLCError("TLC timed out after %ss: %s %s" % (timeout, module, cfg))
    finally:
        shutil.rmtree(meta, ignore_errors=True)
    res = _parse(Result(), p.stdout)
    res.rc = p.returncode
    res.wall = time.time() - t0
    if res.errors and res.violated is None and not res.postcondition_failed:
        raise TLCError("TLC failed on %s %s:\n%s" % (module, cfg, "\n".join(p.stdout.splitlines()[-40:])))
    if p.returncode != 0 and not res.errors:
        raise TLCError("TLC exit %d on %s %s:\n%s" % (p.returncode, module, cfg, "\n".join(p.stdout.splitlines()[-40:])))
    return res


def sany(module, spec_dir=SPEC):
    p = subprocess.run(["java", "-cp", CP, "tla2sany.SANY", module], cwd=spec_dir, stdout=subprocess.PIPE,
                       stderr=subprocess.STDOUT, universal_newlines=True)
    bad = p.returncode != 0 or "*** Errors" in p.stdout or "Fatal" in p.stdout or "Could not" in p.stdout
    return (not bad), p.stdout


def write_cfg(path, lines):
    with open(path, "w") as f:
        f.write("\n".join(lines) + "\n")
