"""Forced thread schedules on the real request pipeline (C09).

Real threads (one per session) run the real code; every acquisition / release of the shared parser locks and every
access to the tag storage is a scheduling point at which the thread parks until the controller -- following a schedule
generated from the specification's side -- lets exactly one thread continue.  Between two points only one thread
runs, so an execution is determined by the schedule and reproducible.
"""
import threading


class Deadlock(Exception):
    pass


class Scheduler(object):
    def __init__(self, order):
        self.cv = threading.Condition()
        self.order = list(order)          # preferred thread per step; afterwards lowest id first
        self.pos = 0
        self.waiting = {}                 # tid -> (label, lock)
        self.alive = set()
        self.turn = None
        self.trace = []                   # (tid, label) in execution order
        self.tids = {}                    # thread ident -> tid
        self.failed = None

    # ---- called by session threads
    def me(self):
        return self.tids.get(threading.current_thread().ident)

    def point(self, label, lock=None):
        tid = self.me()
        if tid is None:
            return
        with self.cv:
            self.waiting[tid] = (label, lock)
            self.cv.notify_all()
            while self.turn != tid:
                if self.failed:
                    raise Deadlock(self.failed)
                self.cv.wait(0.5)
            self.turn = None
            del self.waiting[tid]
            self.trace.append((tid, label))
            self.cv.notify_all()

    # ---- controller
    def run(self, bodies, timeout=30.0):
        """bodies: {tid: callable}; runs them to completion under the schedule"""
        threads = {}

        def wrap(tid, fn):
            def go():
                self.tids[threading.current_thread().ident] = tid
                try:
                    self.point("start")
                    fn()
                finally:
                    with self.cv:
                        self.alive.discard(tid)
                        self.cv.notify_all()
            return go
        for tid, fn in bodies.items():
            self.alive.add(tid)
            threads[tid] = threading.Thread(target=wrap(tid, fn), daemon=True)
        for th in threads.values():
            th.start()
        import time
        t0 = time.time()
        while True:
            with self.cv:
                while self.alive and not (self.turn is None and set(self.waiting) == self.alive):
                    self.cv.wait(0.2)
                    if time.time() - t0 > timeout:
                        self.failed = "timeout"
                        self.cv.notify_all()
                        return False
                if not self.alive:
                    return True
                enabled = sorted(t for t, (lab, lk) in self.waiting.items() if lk is None or lk.free())
                if not enabled:
                    self.failed = "deadlock: %r" % {t: lab for t, (lab, lk) in self.waiting.items()}
                    self.cv.notify_all()
                    return False
                choice = None
                while self.pos < len(self.order):
                    want = self.order[self.pos]
                    if want in enabled:
                        choice = want
                        self.pos += 1
                        break
                    if want in self.alive:
                        break                      # preferred thread exists but is blocked on a lock: let another run
                    self.pos += 1                 # preferred thread already finished: skip
                if choice is None:
                    choice = enabled[0]
                self.turn = choice
                self.cv.notify_all()


class TracedLock(object):
    """drop-in for threading.Lock on the shared parsers: acquisition and release are scheduling points"""

    def __init__(self, sched, name):
        self.sched, self.name = sched, name
        self._l = threading.Lock()

    def free(self):
        return not self._l.locked()

    def acquire(self, blocking=True, timeout=-1):
        if self.sched.me() is None:
            return self._l.acquire(blocking)
        while True:
            self.sched.point("acq:" + self.name, lock=self)
            if self._l.acquire(False):
                return True

    def release(self):
        self._l.release()
        self.sched.point("rel:" + self.name)

    def locked(self):
        return self._l.locked()

    def __enter__(self):
        self.acquire()
        return self

    def __exit__(self, *a):
        self.release()
        return False


class SyncList(list):
    """tag storage whose every read / write access is a scheduling point (element-wise loops show as several)"""
    sched = None
    name = "tag"

    def __getitem__(self, key):
        if SyncList.sched is not None:
            SyncList.sched.point("get:%s" % self.name)
        return list.__getitem__(self, key)

    def __setitem__(self, key, value):
        if SyncList.sched is not None:
            SyncList.sched.point("set:%s" % self.name)
        return list.__setitem__(self, key, value)


def install(sched):
    """put traced locks on the shared objects of the request pipeline; returns an undo function"""
    from cpppo.server.enip import device, logix, ucmm
    saved = []
    runs = []
    targets = [(ucmm.UCMM.parser, "cip"), (device.Connection_Manager.parser_service_path, "psp"), (device.Object.parser, "obj"),
               (device.Connection_Manager.parser, "cm")]
    for obj, name in targets:
        saved.append((obj, "lock", obj.lock))
        obj.lock = TracedLock(sched, name)
        # one more scheduling point in the middle of every run of a shared parser (its lock is held: other threads can only
        # execute code that does not take it -- which is exactly what must not look at the parser)
        orig = obj.run

        def traced_run(*a, _orig=orig, _name=name, **kw):
            n = 0
            for item in _orig(*a, **kw):
                n += 1
                if n == 3:
                    sched.point("mid:" + _name)
                yield item
        obj.run = traced_run
        runs.append(obj)
    saved.append((logix.setup, "lock", logix.setup.lock))
    logix.setup.lock = TracedLock(sched, "setup")
    saved.append((ucmm.UCMM, "lock", ucmm.UCMM.lock))
    ucmm.UCMM.lock = TracedLock(sched, "ucmm")
    SyncList.sched = sched
    # the tag loop of logix.setup (first request of a freshly started simulator): one scheduling point per tag
    orig_setup_tag = logix.setup_tag

    def traced_setup_tag(key, val):
        sched.point("tag:setup")
        return orig_setup_tag(key, val)
    logix.setup_tag = traced_setup_tag
    saved.append((logix, "setup_tag", orig_setup_tag))

    def undo():
        SyncList.sched = None
        for obj, attr, val in saved:
            setattr(obj, attr, val)
        for obj in runs:
            try:
                del obj.run
            except AttributeError:
                pass
    return undo
