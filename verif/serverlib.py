"""Shared machinery of the connection-level checks (C02, C06, C15, C08): scenarios emitted by TLC (MC_Server), sessions
run through the virtual socket around the real enip_srv_tcp, traces validated by TLC (ServerTrace)."""
import json
import os
import random
import tempfile

from . import core, tlc


def emit_scenarios(ctx, wd, maxframes, pers, frames, name):
    cfgp = os.path.join(wd, "srv_emit_%s.cfg" % name)
    tlc.write_cfg(cfgp, ["INIT EmitInit", "NEXT EmitNext", "CHECK_DEADLOCK FALSE", "CONSTANTS",
                         " MaxFrames = %d" % maxframes, ' Pers = "%s"' % pers, ' Frames = "%s"' % frames])
    res = tlc.run("MC_Server", cfgp, spec_dir=wd, timeout=1500)
    ctx.ev.tlc("emit:" + name, res)
    scs = [j for j in res.json if j.get("k") == "scenario"]
    if len(scs) != res.distinct or not scs:
        ctx.machinery.append("scenario emission %s incomplete: %d/%d" % (name, len(scs), res.distinct))
    return scs


def run_model(ctx, wd, maxframes, pers, frames, name):
    cfgp = os.path.join(wd, "srv_mc_%s.cfg" % name)
    tlc.write_cfg(cfgp, ["SPECIFICATION MSpec", "CHECK_DEADLOCK FALSE", "INVARIANT ProcOnlyComplete", "INVARIANT OneReplyEach",
                         "INVARIANT PartialNoEffect", "PROPERTY ClosedStays", "CONSTANTS", " MaxFrames = %d" % maxframes,
                         ' Pers = "%s"' % pers, ' Frames = "%s"' % frames])
    res = tlc.run("MC_Server", cfgp, spec_dir=wd, timeout=1700)
    ctx.ev.tlc("model:" + name, res)
    if res.violated:
        ctx.spec_violation(res, "model:" + name)
    return res


def chunks_of(stream, sizes):
    out, at = [], 0
    for n in sizes:
        if n is None:
            out.append(None)
        else:
            out.append(bytes(stream[at:at + n]))
            at += n
    return out


PROBE = None


def exec_session(job):
    """job = (scenario emission record, sizes): deliver the scenario's stream in chunks of the given sizes (None = a
    receive timeout), then end of stream (a truncation if the sizes do not cover the stream)."""
    from . import sim, vsock
    import struct
    scj, sizes = job[:2]
    delay = job[2] if len(job) > 2 else None          # the server's response delay option (seconds)
    sc = scj["sc"]
    acc = [0]

    class Counting(sim.Attribute):
        def __getitem__(self, key):
            acc[0] += 1
            return sim.Attribute.__getitem__(self, key)

        def __setitem__(self, key, value):
            acc[0] += 1
            return sim.Attribute.__setitem__(self, key, value)

    dev = sim.Device(sc["cfg"], pers=sc["pers"], attribute_class=Counting)
    dev.set_mem(sc["mem0"])
    stream = bytearray()
    for fb in scj["fb"]:
        stream += bytearray(fb)
    sim.reset_random(1)
    zero = len(job) > 3 and job[3] == "zero-draw"     # the random source draws 0 (twice) when the session handle is chosen
    if zero:
        import random
        real, draws = random.randint, [0, 0]
        random.randint = lambda a, b: draws.pop(0) if draws and a == 0 else real(a, b)
    try:
        ev = vsock.session(chunks_of(stream, sizes), addr=("10.0.0.1", 4000), delay=delay, size=sc.get("limit"))     # (the --size option)
    finally:
        if zero:
            random.randint = real
    final = dev.get_mem()
    nacc = acc[0]
    # the listener / other sessions keep working: a new connection registers and lists services
    reg = struct.pack("<HHII", 0x65, 4, 0, 0) + b"probe..." + struct.pack("<I", 0) + b"\x01\x00\x00\x00"
    lsv = struct.pack("<HHII", 0x04, 0, 0, 0) + b"probe..." + struct.pack("<I", 0)
    ev2 = vsock.session([reg + lsv], addr=("10.0.0.2", 4001))
    others = [e["a"] for e in ev2] == ["recv", "proc", "send", "proc", "send", "eof", "close", "conns-left"] and dev.get_mem() == final
    return {"sc": sc, "ev": ev, "final": final, "others": others, "sizes": sizes, "acc": nacc}


def exec_live(job):
    """job = (scenario emission record, sizes, expected reply frames): the stream over a REAL loopback TCP connection, the real
    network.recv included (rsock)"""
    from . import sim, rsock
    scj, sizes, expect = job
    sc = scj["sc"]
    dev = sim.Device(sc["cfg"], pers=sc["pers"])
    dev.set_mem(sc["mem0"])
    stream = bytearray()
    for fb in scj["fb"]:
        stream += bytearray(fb)
    sim.reset_random(1)
    r = rsock.session(stream, sizes, expect)
    return {"sc": sc, "ev": r["ev"], "final": dev.get_mem(), "others": True, "sizes": sizes, "acc": 0, "prompt": r["prompt"], "finished": r["finished"],
            "took": r["took"], "received": r["received"], "expect": expect}


def validate(ctx, lines, name, chunk=1500):
    bad = []
    for k in range(0, len(lines), chunk):
        ch = lines[k:k + chunk]
        fd, path = tempfile.mkstemp(prefix="srv_", suffix=".ndjson")
        with os.fdopen(fd, "w") as f:
            for ln in ch:
                f.write(json.dumps({"sc": ln["sc"], "ev": ln["ev"], "final": ln["final"], "others": ln["others"], "acc": ln["acc"]},
                                   separators=(",", ":")) + "\n")
        try:
            res = tlc.run("ServerTrace", "ServerTrace.cfg", env={"TRACE_FILE": path}, timeout=2400)
        finally:
            os.unlink(path)
        ctx.ev.tlc("validate:" + name, res)
        stuck = {}
        for j in res.json:
            if "tid" not in j:
                continue
            if j["why"] in ("not-closed", "missing-reply", "memory-differs", "other-sessions-affected", "tag-access-on-refused-route"):
                bad.append((ch[j["tid"] - 1], j["at"], j["why"]))
            else:
                stuck[j["tid"]] = j
        expect = sum(len(ln["ev"]) + 1 for ln in ch) - sum(len(ch[t - 1]["ev"]) + 1 - j["at"] for t, j in stuck.items())
        if res.distinct != expect:
            ctx.machinery.append("validate %s: TLC visited %d states, expected %d" % (name, res.distinct, expect))
        for t, j in stuck.items():
            bad.append((ch[t - 1], j["at"], j["why"]))
    return bad


def report(ctx, bad, label):
    classes = {}
    for ln, at, why in bad:
        kinds = ",".join(f["kind"] + ("/" + f["req"]["svc"] if f["kind"] in ("rr", "unit") else "") for f in ln["sc"]["frames"])
        classes[(why, kinds, ln["sc"]["pers"]["k"])] = classes.get((why, kinds, ln["sc"]["pers"]["k"]), 0) + 1
    for k in sorted(classes)[:40]:
        print("  rejected-class %s x%d" % (" ".join(k), classes[k]))
    for ln, at, why in bad:
        rec = {"label": label, "why": why, "at": at, "sc": ln["sc"], "sizes": ln["sizes"], "ev": ln["ev"][:at + 1],
               "final": ln["final"]}
        ctx.violation("%s_%s" % (label, why), rec,
                      what="%s: session rejected at event %d (%s): frames %s delivered as %s; events %s" % (
                          label, at, why, [f["kind"] for f in ln["sc"]["frames"]], ln["sizes"][:12],
                          json.dumps([{k: (v if k != "b" else len(v)) for k, v in e.items()} for e in ln["ev"][:at + 1]][-6:])))


def replay(ctx, path):
    rec = json.load(open(path))
    from . import vsock  # noqa
    scj = {"sc": rec["sc"], "fb": None}
    print("replay needs the scenario's frame octets; re-emitting is done by the full check -- showing the record:")
    print(json.dumps({k: rec[k] for k in ("why", "at", "sizes")}, indent=1))
    return 1
