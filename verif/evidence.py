"""Evidence file writer (schema: /root/.vp/EVIDENCE.schema.json)."""
import json
import os
import time

ROOT = os.path.dirname(os.path.dirname(os.path.abspath(__file__)))
EVID = os.environ.get("VERIF_EVIDENCE_DIR") or os.path.join(ROOT, "evidence")
REPLAYS = os.path.join(ROOT, "replays")


class Evidence(object):
    def __init__(self, pid, tier, seed, level):
        self.pid, self.tier, self.seed, self.level = pid, tier, int(seed), level
        self.t0 = time.time()
        self.states = 0
        self.transitions = 0
        self.impl = 0               # traces / transitions / vectors validated against the implementation
        self.evaluations = 0
        self.nontrivial = set()     # keys of distinct non-trivial cases (kept as hashes)
        self.rule = ""
        self.samples = []
        self.assumptions = []
        self.violations = 0
        self.known = 0
        self.extra = {}
        self.exhaustive = None
        self.tlc_runs = []

    def tlc(self, name, res):
        self.states += res.distinct
        self.transitions += res.generated
        self.tlc_runs.append({"run": name, "distinct": res.distinct, "generated": res.generated,
                              "wall_s": round(res.wall, 2)})

    def case(self, key=None, nontrivial=False, impl=True):
        self.evaluations += 1
        if impl:
            self.impl += 1
        if nontrivial and key is not None:
            self.nontrivial.add(hash(key))

    def sample(self, s, limit=6):
        if len(self.samples) < limit:
            self.samples.append(s)

    def write(self):
        cov = {
            "states": self.states, "transitions": self.transitions,
            "traces_validated_against_impl": self.impl,
            "evaluations": max(self.evaluations, 0),
            "distinct_nontrivial": len(self.nontrivial),
            "rule": self.rule, "samples": self.samples or ["(none)"],
            "tlc_runs": self.tlc_runs,
        }
        if self.exhaustive is not None:
            cov["exhaustive"] = bool(self.exhaustive)
        cov.update(self.extra)
        doc = {"property_id": self.pid, "tier": self.tier, "seed": self.seed, "level": self.level,
               "coverage": cov, "assumptions": self.assumptions, "wall_s": round(time.time() - self.t0, 2),
               "violations": self.violations, "known_findings_seen": self.known}
        os.makedirs(EVID, exist_ok=True)
        tmp = os.path.join(EVID, self.pid + ".json.tmp")
        with open(tmp, "w") as f:
            json.dump(doc, f, indent=1, sort_keys=True, default=str)
        os.replace(tmp, os.path.join(EVID, self.pid + ".json"))
        return doc


def save_replay(pid, name, record):
    d = os.path.join(REPLAYS, pid)
    os.makedirs(d, exist_ok=True)
    path = os.path.join(d, name + ".json")
    with open(path, "w") as f:
        json.dump(record, f, indent=1, sort_keys=True, default=str)
    return path
