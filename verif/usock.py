"""Scripted datagram socket around the real cpppo.server.enip.main.enip_srv_udp.

network.recvfrom is replaced by a script of (payload, peer address); the connection object records sendto; the tag
memory is sampled every time the service loop asks for the next datagram (i.e. when the handling of the previous one is
over).  The service loop, framing machine and request pipeline are the real code."""
import threading

import cpppo
from cpppo.server import network
from cpppo.server.enip import logix
from cpppo.server.enip import main as enip_main

_lock = threading.Lock()


class FakeUdp(object):
    def __init__(self, log, peers):
        self.log, self.peers = log, peers

    def sendto(self, data, addr):
        self.log.append({"a": "reply", "b": list(bytearray(data)), "to": self.peers.get(tuple(addr), 0)})
        return len(data)

    def close(self):
        pass


def run(grams, get_mem, max_idle=3):
    """grams: [(bytes, peer number)]; returns the event log.  get_mem() samples the tag memory."""
    log = []
    peers = {("10.0.1.%d" % p, 5000 + p): p for _, p in grams}
    addr_of = {p: a for a, p in peers.items()}
    pos = [0]
    control = cpppo.dotdict(latency=0.0, done=False, disable=False)

    def recvfrom(conn, maxlen=4096, timeout=None):
        if pos[0] >= len(grams):
            if not control["done"]:
                log.append({"a": "end", "mem": get_mem()})
            control["done"] = True
            return b"", None
        data, p = grams[pos[0]]
        pos[0] += 1
        log.append({"a": "dgram", "mem": get_mem()})
        return bytes(data), addr_of[p]

    conn = FakeUdp(log, peers)
    with _lock:
        saved = network.recvfrom
        network.recvfrom = recvfrom
        try:
            for a in peers:
                enip_main.connections.pop("%s_%d" % (a[0].replace(".", "_"), a[1]), None)
            enip_main.enip_srv_udp(conn, name="enip_udp", enip_process=logix.process, server=cpppo.dotdict(control=control))
        except Exception as exc:
            log.append({"a": "exc", "t": type(exc).__name__})
        finally:
            network.recvfrom = saved
    return log
