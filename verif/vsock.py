"""Virtual socket around the real cpppo.server.enip.main.enip_srv_tcp.

The receive function of cpppo.server.network is replaced by a script (chunks, polls, end-of-stream); the connection
object records what the server sends and when it closes; enip_process is wrapped to record when a request is handed
to the (real) logix.process.  Everything else -- framing machine, receive loop, request pipeline -- is the real code.
"""
import socket
import threading

import cpppo
from cpppo.server import network
from cpppo.server.enip import logix
from cpppo.server.enip import main as enip_main

_lock = threading.Lock()


class FakeConn(object):
    family = socket.AF_INET
    type = socket.SOCK_STREAM

    def __init__(self, log, addr=None):
        self.log = log
        self.closed = False
        self.addr = addr

    def send(self, data):
        self.log.append({"a": "send", "b": list(bytearray(data)), "conns": open_connections(self.addr)})
        return len(data)

    def close(self):
        if not self.closed:
            self.closed = True
            self.log.append({"a": "close"})

    def setsockopt(self, *a):
        pass

    def shutdown(self, *a):
        pass


def open_connections(addr):
    """connection serials the Connection Manager holds for the peer (host, port): the real Forward Open table"""
    from cpppo.server.enip import device
    if addr is None:
        return []
    try:
        cm = device.lookup(class_id=0x06, instance_id=1)
    except Exception:
        return []
    if cm is None:
        return []
    return sorted(set(ufo.connection_serial for k, (ufo, uci) in list(cm.forwards.items()) if tuple(k[:2]) == tuple(addr[:2])))


def session(script, addr=("10.0.0.1", 4000), process=None, max_polls=3, delay=None, size=None):
    """Run one TCP session of the real server over `script`: a list of bytes (a received chunk), None (a receive
    timeout) and finally b'' (end of stream; appended if missing).  Returns the event log."""
    log = []
    script = list(script)
    if not script or script[-1] != b"":
        script.append(b"")
    pos = [0]
    nproc = [0]

    def recv(conn, maxlen=1024, timeout=None, closeprob=None):
        if pos[0] >= len(script):
            log.append({"a": "eof"})
            return b""
        item = script[pos[0]]
        pos[0] += 1
        if item is None:
            log.append({"a": "poll"})
            return None
        if item == b"":
            log.append({"a": "eof"})
            return b""
        log.append({"a": "recv", "n": len(item)})
        return bytes(item)

    inner = process or logix.process

    def wrapped(addr_, data, **kwds):
        if data and "request" in data and data.request:
            nproc[0] += 1
            log.append({"a": "proc", "i": nproc[0]})
        return inner(addr_, data=data, **kwds)

    conn = FakeConn(log, addr)
    control = cpppo.dotdict(latency=0.0, done=False, disable=False)
    with _lock:
        saved = network.recv
        network.recv = recv
        try:
            enip_main.connections.pop("%s_%d" % (addr[0].replace(".", "_"), addr[1]), None)
            enip_main.enip_srv_tcp(conn, addr, name="enip_%d" % addr[1], enip_process=wrapped, delay=delay,
                                   server=cpppo.dotdict(control=control), **({} if size is None else {"size": size}))
        except Exception as exc:
            log.append({"a": "exc", "t": type(exc).__name__})
        finally:
            network.recv = saved
    log.append({"a": "conns-left", "n": len(open_connections(addr))})
    leftover = "%s_%d" % (addr[0].replace(".", "_"), addr[1]) in enip_main.connections
    if leftover:
        log.append({"a": "stats-left"})
    return log
