"""Harness side of C12 / C13: drive the real cpppo client (connector.operate, pipelined / synchronous / bundled) against a
live simulator thread, optionally through a fault-injecting relay; record what the application observes."""
import json
import time

from . import sim

_STATE = {}
ROUTES = [[{"port": 1, "link": 0}], [{"port": 1, "link": 1}]]


def server(cfg):
    """one live simulator per worker process (and configuration)"""
    from . import live
    key = json.dumps(cfg, sort_keys=True)
    if _STATE.get("key") != key:
        if _STATE.get("srv"):
            _STATE["srv"].stop()
        _STATE["srv"] = live.LiveServer(cfg)
        _STATE["key"] = key
    return _STATE["srv"]


def wait_idle(limit=5.0):
    """no session of an earlier run may still be processing pipelined requests when the tags are reset"""
    from cpppo.server.enip import main as enip_main
    t0 = time.time()
    while enip_main.connections and time.time() - t0 < limit:
        time.sleep(0.002)
    return not enip_main.connections


def tagtype(cfg, r):
    return cfg["tags"][r["tag"] - 1]["type"]


def expected_op(cfg, r):
    """the operation dict the text of r must parse to (fields that matter)"""
    tg = cfg["tags"][r["tag"] - 1]
    if r["mode"] == "sym":
        path = [{"symbolic": bytes(bytearray(tg["name"])).decode("ascii")}]
    else:
        c, i, a = tg["cia"]
        path = [{"class": c}, {"instance": i}, {"attribute": a}]
    if r["idx"] >= 0:
        path.append({"element": r["idx"]})
    op = {"path": path}
    if r["idx"] >= 0:
        op["elements"] = r["n"]
    if r["svc"] in ("readf", "writef"):
        op["offset"] = r["off"]
    if r["svc"] in ("write", "writef"):
        from cpppo.server.enip import parser
        op["method"] = "write"
        op["tag_type"] = getattr(parser, r["typ"]).tag_type
        op["data"] = [sim.dec_elem(r["typ"], v) for v in r["vals"]]
        op.setdefault("elements", r["n"])
    return op


def check_text(job):
    """the textual description denotes exactly the operation it spells"""
    from cpppo.server.enip import client
    cfg, j = job
    if j["r"]["svc"] in ("gas", "sas"):
        from cpppo.server.enip.get_attribute import attribute_operations
        want = expected_op(cfg, dict(j["r"], svc="write" if j["r"]["svc"] == "sas" else "read", n=len(j["r"]["vals"])))
        want["method"] = "set_attribute_single" if j["r"]["svc"] == "sas" else "get_attribute_single"
        want.pop("elements", None)
        try:
            got = list(attribute_operations([j["text"]]))[0]
        except Exception as exc:
            return ["attribute_operations(%r) raised %r" % (j["text"], exc)]
        out = []
        for k, v in want.items():
            g = got.get(k)
            if k == "path":
                g = [dict(s) for s in g]
            if g != v:
                out.append("attribute_operations(%r): %s = %r, spells %r" % (j["text"], k, g, v))
        return out
    want = expected_op(cfg, j["r"])
    out = []
    for frag in (False, True):
        try:
            got = list(client.parse_operations([j["text"]], fragment=frag))[0]
        except Exception as exc:
            if frag and j["r"]["svc"] in ("write", "writef") and (j["r"]["idx"] < 0 or j["r"]["typ"] in ("SSTRING", "STRING")):
                continue              # fragmented writes must spell their element range and have fixed-size elements (documented)
            out.append("parse_operations(%r, fragment=%s) raised %r" % (j["text"], frag, exc))
            continue
        for k, v in want.items():
            g = got.get(k)
            if k == "path":
                g = [dict(s) for s in g]
            if k == "elements" and g is None:
                g = 1                       # an omitted count means one element
            if g != v:
                out.append("parse_operations(%r, fragment=%s): %s = %r, spells %r" % (j["text"], frag, k, g, v))
    # a formatted path parses back to the same segments
    from cpppo.server.enip import device
    try:
        txt = client.format_path([dict(s) for s in want["path"]], count=want.get("elements"))
        seg, elm, cnt = device.parse_path_elements(txt)
        back = [dict(s) for s in seg]
        if back != want["path"] or (want.get("elements") not in (None, 1) and cnt != want["elements"]):
            out.append("format_path -> %r parses back to %r (count %r), segments were %r (count %r)" % (txt, back, cnt, want["path"], want.get("elements")))
    except Exception as exc:
        out.append("format_path / parse_path_elements raised %r" % exc)
    return out


def make_connector(host, port, timeout, sends, binctx=False):
    from cpppo.server.enip import client

    class Logged(client.connector):
        def index_to_sender_context(self, index):
            if not binctx:
                return super(Logged, self).index_to_sender_context(index)
            return bytes(bytearray([1 + index % 200, 0, 7, 0, 0, 9]))          # sender contexts are octets: some of them zero, inside


        def unconnected_send(self, request, route_path=None, send_path=None, **kw):
            members = len(request.multiple.request) if isinstance(request, dict) and "multiple" in request else 1
            sends.append({"route_path": route_path, "send_path": send_path, "members": members})
            return super(Logged, self).unconnected_send(request, route_path=route_path, send_path=send_path, **kw)
    return Logged(host=host, port=port, timeout=timeout)


def observe(cfg, r, sts, val):
    st, ext = (sts, []) if isinstance(sts, int) else (sts[0], list(sts[1]))
    if val is True:
        return {"st": st, "ext": ext, "vals": [], "ok": True, "bytes": [], "exact5": False}
    if val is None or val is False:
        return {"st": st, "ext": ext, "vals": [], "ok": False, "bytes": [], "exact5": False}
    if r["svc"] in ("write", "writef", "sas") and isinstance(val, (list, tuple)):
        # validating mode reports a write by the values it carried (otherwise True / None); success is told by the status then
        want = [sim.dec_elem(r["typ"], v) for v in r["vals"]]
        if list(val) == want:
            return {"st": st, "ext": ext, "vals": [], "ok": st == 0, "bytes": [], "exact5": False}
    if r["svc"] == "gas":
        return {"st": st, "ext": ext, "vals": [], "ok": True, "bytes": [int(v) for v in val], "exact5": False}      # the attribute's octets
    t = tagtype(cfg, r)
    return {"st": st, "ext": ext, "vals": [sim.enc_elem(t, v) for v in val], "ok": True, "bytes": [], "exact5": False}


def run_client(job):
    """job = (cfg, mem0, ops [{"r","text"}], (depth, multiple, fragment), route pattern, fault) -> trace line
    fault: None | {"cut_s2c": k} | {"cut_c2s": k} | {"silence": True}"""
    from cpppo.server.enip import client
    from . import live
    cfg, mem0, ops, setting, pattern, fault = job
    depth, multiple, fragment = setting[:3]
    validating = len(setting) > 3 and setting[3]      # operate(..., validating=True): results must be the same
    reuse = len(setting) > 4 and setting[4]            # the same list of operation dicts is issued a second time
    srv = server(cfg)
    wait_idle()
    srv.dev.set_mem(mem0)
    texts = [o["text"] for o in ops]
    try:
        operations = []
        for o in ops:                  # attribute services are spelled the same way and parsed by get_attribute.attribute_operations
            if o["r"]["svc"] in ("gas", "sas"):
                from cpppo.server.enip.get_attribute import attribute_operations
                operations += list(attribute_operations([o["text"]]))
            else:
                operations += list(client.parse_operations([o["text"]], fragment=fragment))
    except Exception as exc:           # an operation text of the catalogue must parse: reported as a run without results
        return {"cfg": cfg, "mem0": mem0, "ops": [o["r"] for o in ops], "frag": bool(fragment), "obs": [], "fault": bool(fault),
                "delivered": len(ops), "raised": True, "mixed": False, "final": [], "setting": [depth, multiple, fragment],
                "pattern": pattern, "exc": "parse_operations: %r" % exc, "faultspec": fault, "sends": 0}
    for i, op in enumerate(operations):
        op["route_path"] = ROUTES[pattern[i % len(pattern)]]
    relay = None
    addr = srv.address
    if fault:
        relay = live.Relay(srv.address, cut_s2c=fault.get("cut_s2c"), cut_c2s=fault.get("cut_c2s"), silence=fault.get("silence", False),
                           drop_frame=fault.get("drop_frame"))
        addr = relay.address
    sends, obs, raised = [], [], ""
    ref = bool(fault) and fault.get("ref", False)
    if ref:
        fault = None
    try:
        conn = make_connector(addr[0], addr[1], 0.6 if fault else 5.0, sends, binctx=len(setting) > 5 and setting[5])
        with conn:
            for rnd in range(2 if reuse else 1):
                for idx, dsc, op, rpy, sts, val in conn.operate(operations, depth=depth, multiple=multiple, fragment=fragment,
                                                               timeout=0.6 if fault else 5.0, **({"validating": True} if validating else {})):
                    obs.append(observe(cfg, ops[len(obs) % len(ops)]["r"], sts, val))
    except Exception as exc:
        raised = type(exc).__name__
    finally:
        if relay:
            relay.close()
    # which operation went out under which route path (bundles: every member shares the send's paths)
    mixed = False
    k = 0
    for s in sends:
        for _ in range(s["members"]):
            if s["route_path"] != operations[k % len(operations)]["route_path"]:
                mixed = True
            k += 1
    time.sleep(0)
    allops = [o["r"] for o in ops] * (2 if reuse else 1)
    line = {"cfg": cfg, "mem0": mem0, "ops": allops, "frag": bool(fragment), "obs": obs, "fault": bool(fault),
            "delivered": len(allops), "raised": bool(raised), "mixed": mixed, "final": srv.dev.get_mem(),
            "setting": list(setting), "pattern": pattern, "exc": raised, "faultspec": fault, "sends": len(sends)}
    if relay:
        line["s2c"] = list(relay.s2c)
        line["c2s_len"] = len(relay.c2s)
        line["members"] = [x["members"] for x in sends]
    return line


def poll_run_probe(j):
    """one pattern of poll successes / failures (spec/PollRun.tla) on the real poll.run, over a virtual clock"""
    from cpppo.server.enip import poll
    pat = j["pat"]
    T0 = 1000.0
    clock = [T0]
    attempts, failures, results = [], [], []

    class FakeTime(object):
        @staticmethod
        def sleep(s):
            clock[0] += s

    class Via(object):
        def __enter__(self):
            return self
        def __exit__(self, *a):
            return False
        def parameter_substitution(self, params, pass_thru=None):
            return params
        def read(self, ops):
            n = len(attempts)
            attempts.append(clock[0] - T0)
            if n + 1 >= len(pat):
                process.done = True
            if not pat[n]:
                raise RuntimeError("poll %d fails" % (n + 1))
            return ([n] for _ in list(ops))

    def process(p, v):
        results.append(v)
    saved = (poll.timer, poll.time)
    poll.timer = lambda: clock[0]
    poll.time = FakeTime
    try:
        poll.run(Via(), process, failure=lambda exc: failures.append(str(exc)), cycle=1.0, params=["X"], pass_thru=True)
    finally:
        poll.timer, poll.time = saved
    return {"at": [int(round(a * 32)) for a in attempts], "exact": all(abs(a * 32 - round(a * 32)) < 1e-9 for a in attempts),
            "fails": len(failures), "results": len(results)}
