"""Shared machinery of the Logix-family checks (C03, C04, C05, C07): TLC model runs, emission of cases,
execution on the real simulator, validation of the recorded steps by TLC (LogixTrace)."""
import json
import os
import tempfile

from . import core, tlc

# the quick tiers take the first pairs: integers, floating point, BOOL, both string types and an 8-byte type must be among them
TYPE_PAIRS = [("INT", "DINT"), ("REAL", "LREAL"), ("BOOL", "SSTRING"), ("STRING", "INT"), ("LREAL", "LINT"),
              ("USINT", "LINT"), ("SINT", "USINT"), ("UINT", "UDINT"), ("LINT", "ULINT"), ("DINT", "REAL")]

MC_PROPS = ["INVARIANT TypeOK", "INVARIANT Readable", "PROPERTY FrameOK", "PROPERTY RefusedNoChange",
            "PROPERTY ReadsMemory"]


def mc_cfg(path, t1, t2, budget, depth, rich, emit=False, many=False, foreign=False):
    lines = []
    if emit:
        lines += ["INIT Init", "NEXT EmitNext", "CONSTRAINT EmitMem", "VIEW MemView"]
    else:
        lines += ["SPECIFICATION Spec", "VIEW MemDepth"] + MC_PROPS
    lines += ["CHECK_DEADLOCK FALSE", "CONSTANTS", ' T1 = "%s"' % t1, ' T2 = "%s"' % t2, " Budget = %d" % budget,
              " Depth = %d" % depth, " Rich = %s" % ("TRUE" if rich else "FALSE"), " Many = %s" % ("TRUE" if many else "FALSE"), " Foreign = %s" % ("TRUE" if foreign else "FALSE"), " Cfg <- MCfg", " Reqs <- MReqs",
              ' InitVals = "zero"', " MaxDepth <- Depth"]
    tlc.write_cfg(path, lines)


class Catalogue(object):
    def __init__(self):
        self.cfg = None
        self.reqs = []      # [{"r": request, "b": octets}]
        self.mems = []      # [{"mem":..., "depth":...}]


def run_model(ctx, wd, t1, t2, budget, depth, rich, name, many=False):
    """M: exhaustive TLC run of Logix on this configuration (properties on the spec)."""
    cfgp = os.path.join(wd, "mc_%s.cfg" % name)
    mc_cfg(cfgp, t1, t2, budget, depth, rich, many=many)
    res = tlc.run("MC_Logix", cfgp, spec_dir=wd, timeout=1500)
    ctx.ev.tlc("model:" + name, res)
    if res.violated:
        ctx.spec_violation(res, "model:" + name)
    return res


def run_emit(ctx, wd, t1, t2, budget, depth, rich, name, many=False, foreign=False):
    """Emission: request catalogue (with the spec's encoding) and every memory reachable by <= depth writes."""
    cfgp = os.path.join(wd, "emit_%s.cfg" % name)
    mc_cfg(cfgp, t1, t2, budget, depth, rich, emit=True, many=many, foreign=foreign)
    res = tlc.run("MC_Logix", cfgp, spec_dir=wd, timeout=1500)
    ctx.ev.tlc("emit:" + name, res)
    cat = Catalogue()
    seen = set()
    for j in res.json:
        k = j.get("k")
        if k == "cfg":
            cat.cfg = j["cfg"]
        elif k == "req":
            cat.reqs.append(j)
        elif k == "mem":
            key = json.dumps(j["mem"])
            if key not in seen:
                seen.add(key)
                cat.mems.append(j)
    if cat.cfg is None or not cat.reqs or len(cat.mems) != res.distinct:
        ctx.machinery.append("emission %s incomplete: cfg=%s reqs=%d mems=%d/%d" % (
            name, cat.cfg is not None, len(cat.reqs), len(cat.mems), res.distinct))
    return cat


# ---- execution on the real simulator (worker side)

def exec_fan(job):
    """job = (cfg, mem, [ {"r":..,"b":..}, ... ]) -> trace line with one event per request, each from `mem`."""
    from . import sim
    cfg, mem, reqs = job
    dev = sim.Device(cfg)
    evs = []
    for q in reqs:
        dev.set_mem(mem)
        rpy = dev.cip(q["b"])
        evs.append({"r": q["r"], "b": q["b"], "rpy": rpy, "mem": dev.get_mem()})
    return {"cfg": cfg, "fan": True, "from": mem, "ev": evs, "xfer": {"on": False}}


def exec_history(job):
    """job = (cfg, mem, [requests]) -> trace line: one history on one device."""
    from . import sim
    cfg, mem, reqs = job
    # histories run on tags built by the simulator's own main() from 'NAME=TYPE[len]' definitions, untouched by the harness
    # unless the starting memory differs from what main() created
    dev = sim.Device(cfg, via_main=True)
    dev.set_mem(mem, keep_equal=True)
    evs = []
    for q in reqs:
        rpy = dev.cip(q["b"])
        evs.append({"r": q["r"], "b": q["b"], "rpy": rpy, "mem": dev.get_mem()})
    return {"cfg": cfg, "fan": False, "from": mem, "ev": evs, "xfer": {"on": False}}


def exec_bundles(job):
    """job = (cfg, mem, [bundle emission records]) -> fan trace: each bundle on a device set to `mem`, and its members
    one by one on the device set to `mem` again (replies and final memory recorded for the three-way comparison)."""
    from . import sim
    cfg, mem, bundles = job
    dev = sim.Device(cfg)
    evs = []
    for q in bundles:
        dev.set_mem(mem)
        singles = [dev.cip(mb) for mb in q["mb"]]
        smem = dev.get_mem()
        dev.set_mem(mem)
        rpy = dev.cip(q["b"])
        evs.append({"r": q["r"], "b": q["b"], "rpy": rpy, "mem": dev.get_mem(), "singles": singles, "smem": smem})
    return {"cfg": cfg, "fan": True, "from": mem, "ev": evs, "xfer": {"on": False}}


def exec_xfer(job):
    """job = (case, order): a TLC-emitted fragmented transfer walked on the real simulator.
    read : request for offset 0; then the request whose offset equals the number of data octets received so far,
           until a reply's status is not 0x06 (or no progress / table exhausted).
    write: the tile requests in the given order."""
    from . import sim
    case, order = job
    cfg = case["cfg"]
    # (every other transfer on a simulator whose reply size budget is configured on a derived Message Router class)
    dev = sim.Device(cfg, budget_via="subclass" if len(case["reqs"]) % 2 == 0 else "class")
    dev.set_mem(case["mem"])
    evs = []
    if case["k"] == "rd":
        byoff = {q["r"]["off"]: q for q in case["reqs"]}
        off = 0
        for _ in range(len(case["reqs"]) + 2):
            q = byoff.get(off)
            if q is None:
                break
            rpy = dev.cip(q["b"])
            evs.append({"r": q["r"], "b": q["b"], "rpy": rpy, "mem": dev.get_mem()})
            if len(rpy) < 4 or rpy[2] != 6:
                break
            got = len(rpy) - 6
            if got <= 0:
                break
            off += got
        xfer = {"on": True, "kind": "read", "data": case["data"], "final": []}
    else:
        for j in order:
            q = case["reqs"][j]
            rpy = dev.cip(q["b"])
            evs.append({"r": q["r"], "b": q["b"], "rpy": rpy, "mem": dev.get_mem()})
        xfer = {"on": True, "kind": "write", "data": [], "final": case["final"]}
    return {"cfg": cfg, "fan": False, "from": case["mem"], "ev": evs, "xfer": xfer}


def validate(ctx, lines, name, chunk_events=60000):
    """V: TLC decides for every recorded trace whether it is a behaviour of Logix.  Returns [(line, at, why)]."""
    bad = []
    chunk, n = [], 0
    chunks = []
    for ln in lines:
        chunk.append(ln)
        n += len(ln["ev"])
        if n >= chunk_events:
            chunks.append(chunk)
            chunk, n = [], 0
    if chunk:
        chunks.append(chunk)
    for ch in chunks:
        fd, path = tempfile.mkstemp(prefix="logix_", suffix=".ndjson")
        with os.fdopen(fd, "w") as f:
            for ln in ch:
                f.write(json.dumps(ln, separators=(",", ":")) + "\n")
        try:
            res = tlc.run("LogixTrace", "LogixTrace.cfg", env={"TRACE_FILE": path}, timeout=2400)
        finally:
            os.unlink(path)
        ctx.ev.tlc("validate:" + name, res)
        failed = {}
        for j in res.json:
            if "tid" in j and j["why"].startswith("transfer"):
                bad.append((ch[j["tid"] - 1], j["at"], j["why"]))
            elif "tid" in j:
                failed[j["tid"]] = j
        expect = sum(len(ln["ev"]) + 1 for ln in ch) - sum(
            (len(ch[tid - 1]["ev"]) + 1 - j["at"]) for tid, j in failed.items())
        if res.distinct != expect:
            ctx.machinery.append("validate %s: TLC visited %d states, expected %d" % (name, res.distinct, expect))
        for tid, j in failed.items():
            bad.append((ch[tid - 1], j["at"], j["why"]))
    return bad


def report(ctx, bad, label):
    """Turn rejected traces into VIOLATION / KNOWN-FINDING lines."""
    classes = {}
    for ln, at, why in bad:
        e = ln["ev"][at - 1]
        r = e["r"]
        tg = ln["cfg"]["tags"][r["tag"] - 1] if r.get("tag") else None
        key = (r["svc"], why, r.get("typ") if r["svc"] in ("write", "writef") else "-", tg["type"] if tg else "-",
               "beyond" if tg and max(r["idx"], 0) + r["n"] > tg["len"] else "inside", "st=%s" % (e["rpy"][2] if len(e["rpy"]) > 2 else "exc"),
               "members=" + ",".join(m["svc"] for m in r["ms"]))
        classes[key] = classes.get(key, 0) + 1
    for k in sorted(classes):
        print("  rejected-class %s x%d" % (" ".join(map(str, k)), classes[k]))
    for ln, at, why in bad:
        e = ln["ev"][at - 1]
        r = e["r"]
        cfg = ln["cfg"]
        tagtype = cfg["tags"][r["tag"] - 1]["type"] if r.get("tag") else None
        rec = {"label": label, "why": why, "at": at, "trace": {"cfg": cfg, "fan": ln["fan"], "from": ln["from"],
                                                               "ev": ln["ev"][:at]},
               "svc": r["svc"], "req_type": r.get("typ"), "tag_type": tagtype,
               "cross_type": bool(tagtype and r.get("typ") != tagtype and r["svc"] in ("write", "writef")),
               "rpy": e["rpy"]}
        ctx.violation("%s_%s_%s" % (label, r["svc"], why), rec,
                      what="%s: step %d %s: request %s answered %s, memory after %s" % (
                          label, at, why, json.dumps(r), e["rpy"], json.dumps(e["mem"])))
