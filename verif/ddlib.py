"""Harness side of C16: build a real cpppo.dotdict from the spec's flat state, apply one operation in every
equivalent form, project the result back to the flat view.  Construction and projection use raw dict access only
(never dotdict's own path logic), so the code under test is exactly the operation being replayed."""
import copy

from cpppo.dotdict import dotdict, dotdict_base

KEYNAMES = ["a", "b", "l", "keys"]
# leaf values of the model <-> Python values: 2 and 3 are values that are false in Python (the integer 0, None)
PYLEAF = {2: 0, 3: None}
MODLEAF = {0: 2, None: 3}


def pyleaf(v):
    return PYLEAF.get(v, v)


def resolve(tok):
    """tokens -> path (every empty token backs up one level)"""
    acc = []
    for t in tok:
        if t[0] == 0:
            acc = acc[:-1]
        else:
            acc.append(t)
    return acc


def build(entries):
    root = dotdict()
    for e in sorted(entries, key=lambda x: x["p"]):
        cur = root
        for n, (k, i) in enumerate(e["p"]):
            last = n == len(e["p"]) - 1
            name = KEYNAMES[k - 1]
            if i < 0:
                if last:
                    v = e["v"]
                    dict.__setitem__(cur, name, dotdict() if v == 0 else ([] if v == -1 else pyleaf(v)))
                else:
                    if not dict.__contains__(cur, name):
                        dict.__setitem__(cur, name, dotdict())
                    cur = dict.__getitem__(cur, name)
            else:
                if not dict.__contains__(cur, name):
                    dict.__setitem__(cur, name, [])
                lst = dict.__getitem__(cur, name)
                while len(lst) <= i:
                    lst.append(dotdict())
                if last:
                    if e["v"] != 0:
                        lst[i] = pyleaf(e["v"])
                else:
                    cur = lst[i]
    return root


def flatten(val, prefix=None, out=None):
    """real value -> flat entries (raw access)"""
    prefix = prefix or []
    out = [] if out is None else out
    if isinstance(val, dotdict_base):
        if len(dict.keys(val)) == 0 and prefix:
            out.append({"p": prefix, "v": 0})
        for name, v in dict.items(val):
            k = KEYNAMES.index(name) + 1 if name in KEYNAMES else 9
            if isinstance(v, list) and v and all(isinstance(x, dotdict_base) for x in v):
                for i, el in enumerate(v):
                    if len(dict.keys(el)) == 0:
                        out.append({"p": prefix + [[k, i]], "v": 0})
                    else:
                        flatten(el, prefix + [[k, i]], out)
            else:
                flatten(v, prefix + [[k, -1]], out)
    elif isinstance(val, list) and not val:
        out.append({"p": prefix, "v": -1})
    elif val is None or (val == 0 and type(val) is int):
        out.append({"p": prefix, "v": MODLEAF[val]})
    elif isinstance(val, bool) or not isinstance(val, int) or val in PYLEAF:
        out.append({"p": prefix, "v": 99})
    else:
        out.append({"p": prefix, "v": val})
    return out


def project(val, lastkey):
    """a looked-up value -> {"leaf","v","sub"}"""
    if isinstance(val, dotdict_base):
        return {"leaf": False, "v": 0, "sub": flatten(val)}
    if isinstance(val, list) and val and all(isinstance(x, dotdict_base) for x in val):
        sub = []
        for i, el in enumerate(val):
            if len(dict.keys(el)) == 0:
                sub.append({"p": [[lastkey, i]], "v": 0})
            else:
                flatten(el, [[lastkey, i]], sub)
        return {"leaf": False, "v": 0, "sub": sub}
    if isinstance(val, list) and not val:
        return {"leaf": True, "v": -1, "sub": []}
    if val is None or (val == 0 and type(val) is int):
        return {"leaf": True, "v": MODLEAF[val], "sub": []}
    if isinstance(val, int) and not isinstance(val, bool) and val not in PYLEAF:
        return {"leaf": True, "v": val, "sub": []}
    return {"leaf": True, "v": 99, "sub": []}


def nested(ents, flat=False):
    """relative entries -> plain dict (nested, or with dotted keys when flat)"""
    d = {}
    for e in ents:
        names = [KEYNAMES[k - 1] for k, i in e["p"]]
        v = e["v"]
        if flat:
            d[".".join(names)] = {} if v == 0 else pyleaf(v)
            continue
        cur = d
        for nm in names[:-1]:
            cur = cur.setdefault(nm, {})
        cur[names[-1]] = {} if v == 0 else pyleaf(v)
    return d


def pyval(val, variant=0):
    if val["k"] == "leaf":
        return pyleaf(val["v"])
    if val["k"] == "map":
        return nested(val["ents"], flat=bool(variant % 2))
    return [build(el) for el in val["elems"]]


NOKEY = {"leaf": False, "v": 0, "sub": []}


def simple(tok):
    return all(k not in (0, 4) for k, i in tok)      # no empty tokens, no reserved (method) names


def attr_get(d, tok):
    cur = d
    for k, i in tok:
        cur = getattr(cur, KEYNAMES[k - 1])
        if i >= 0:
            cur = cur[i]
    return cur


def run_op(d, o, variant=0):
    """apply operation o to the real dotdict d; returns the event fields (without "o" and "S")"""
    kind, key, tok = o["o"], o["key"], o["tok"]
    lastkey = (resolve(tok) or [[0, 0]])[-1][0]
    ev = {"ok": True, "res": NOKEY, "items": [], "selfok": True, "formsok": True}
    try:
        if kind == "get":
            val = d[key]
            ev["res"] = project(val, lastkey)
            if simple(tok):
                try:
                    other = project(attr_get(d, tok), lastkey)
                    ev["formsok"] = other == ev["res"]
                except Exception:
                    ev["formsok"] = False
            if d.get(key, "nope") is not val and project(d.get(key, "nope"), lastkey) != ev["res"]:
                ev["formsok"] = False
        elif kind == "in":
            ev["ok"] = key in d
        elif kind == "set":
            v = pyval(o["val"], variant)
            form = variant % 7
            if len(tok) == 1 and tok[0][1] < 0 and form == 2:
                setattr(d, key, v)
            elif form == 3:
                d.update({key: v})                  # assignment by update: a mapping, a sequence of pairs, a keyword
            elif form == 4:
                d.update([(key, v)])
            elif form == 5 and key.isidentifier():
                d.update(**{key: v})
            else:
                d[key] = v
        elif kind == "del":
            del d[key]
        elif kind == "pop":
            ev["res"] = project(d.pop(key), lastkey)
        elif kind == "setdefault":
            ev["res"] = project(d.setdefault(key, pyval(o["val"], variant)), lastkey)
        elif kind == "keys":
            items = list(d.items())
            keys = list(d.keys())
            ev["selfok"] = keys == [k for k, v in items] and list(iter(d)) == keys
            for k, v in items:
                pv = project(v, 0)
                ev["items"].append({"key": k, "v": pv["v"] if pv["leaf"] else (0 if not pv["sub"] else 98)})
                try:
                    if project(d[k], 0) != pv or k not in d:
                        ev["selfok"] = False
                except Exception:
                    ev["selfok"] = False
    except Exception:
        ev["ok"] = False
        if kind == "get" and simple(tok):
            try:
                attr_get(d, tok)
                ev["formsok"] = False     # attribute form found what item form did not
            except Exception:
                pass
            try:
                if d.get(key, "nope") != "nope":
                    ev["formsok"] = False
            except Exception:
                pass
    return ev


def exec_fan(job):
    entries, ops, variant = job
    evs = []
    for n, o in enumerate(ops):
        d = build(entries)
        ev = run_op(d, o, variant + n)
        ev["o"] = o
        ev["S"] = flatten(d)
        evs.append(ev)
    return {"fan": True, "from": entries, "ev": evs}


def exec_history(job):
    entries, ops, variant = job
    d = build(entries)
    evs = []
    for n, o in enumerate(ops):
        ev = run_op(d, o, variant + n)
        ev["o"] = o
        ev["S"] = flatten(d)
        evs.append(ev)
    return {"fan": False, "from": entries, "ev": evs}


def snapshot(val):
    """a deep, plain picture of a tree (lists of any mixture descended into): for comparing one side of a copy before / after"""
    if isinstance(val, dict):
        return {k: snapshot(v) for k, v in dict.items(val)}
    if isinstance(val, list):
        return [snapshot(v) for v in val]
    return val


def mix_lists(val):
    """append a plain value to every list of levels in the tree (a list may hold plain values next to levels)"""
    if isinstance(val, dict):
        for v in dict.values(val):
            mix_lists(v)
    elif isinstance(val, list):
        for v in val:
            mix_lists(v)
        if val and all(isinstance(x, dotdict_base) for x in val):
            val.append(7)


def exec_copy(job):
    """copies are structurally independent: mutate one side of a copy / deepcopy, the other must not change"""
    entries, o, deep, side = job[:4]
    mixed = len(job) > 4 and job[4]
    d = build(entries)
    if mixed:
        mix_lists(d)
    c = copy.deepcopy(d) if deep else copy.copy(d)
    same = (snapshot(c) == snapshot(d) if mixed else flatten(c) == flatten(d)) and type(c) is type(d)
    target, other = (c, d) if side == "copy" else (d, c)
    before = snapshot(other)
    ev = run_op(target, o, 0)
    return {"from": entries, "o": o, "deep": deep, "side": side, "same": same, "ok": ev["ok"], "mixed": bool(mixed),
            "S": flatten(target), "other": flatten(other), "indep": snapshot(other) == before}


def reserved_probe(name):
    """a reserved (method) name must be refused as the final name of an assignment in every form, and nothing may be stored"""
    out = []
    for form in ("item", "path", "updir", "attr", "setdefault", "update"):
        d = build([{"p": [[1, -1], [2, -1]], "v": 1}])            # a.b = 1
        before = flatten(d)
        try:
            if form == "item":
                d[name] = 5
            elif form == "path":
                d["a." + name] = 5
            elif form == "updir":
                d["a.b.." + name] = 5
            elif form == "attr":
                setattr(d, name, 5)
            elif form == "setdefault":
                d.setdefault("a." + name, 5)
            else:
                d.update({name: 5})
            out.append("%s accepted as a key (%s form)" % (name, form))
        except Exception:
            pass
        if flatten(d) != before or dict.__contains__(d, name) or dict.__contains__(dict.__getitem__(d, "a"), name):
            out.append("%s stored by a refused assignment (%s form)" % (name, form))
    return out
