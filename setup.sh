#!/bin/sh
# Offline setup: byte-compile the harness and parse every specification module with SANY.
set -e
cd "$(dirname "$0")"
/venv/bin/python -m compileall -q verif check >/dev/null
fail=0
for f in spec/*.tla; do
  m=$(basename "$f")
  if ! (cd spec && java -cp /opt/veriftools/tla/tla2tools.jar:/opt/veriftools/tla/CommunityModules-deps.jar tla2sany.SANY "$m" >/tmp/sany.$$ 2>&1) || grep -q -e '\*\*\* Errors' -e 'Fatal' /tmp/sany.$$; then
    echo "SANY failed on $m"; cat /tmp/sany.$$; fail=1
  fi
done
rm -f /tmp/sany.$$
mkdir -p evidence replays
exit $fail
