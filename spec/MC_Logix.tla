------------------------------ MODULE MC_Logix ------------------------------
(***************************************************************************)
(* Bounded instances of Logix: tag configurations, value domains and the    *)
(* request sets that TLC explores exhaustively and emits for replay.         *)
(* Which (CONSTANT) selects the pair of element types of the configuration:  *)
(*   tag 1: T1[3]  auto-allocated in the Message Router  (2/1/1)             *)
(*   tag 2: T1     scalar, auto-allocated                 (2/1/2) -- or, with Foreign = TRUE, bound to @2/5/1: ANOTHER   *)
(*          instance of the Message Router's class                                                                   *)
(*   tag 3: T2[2]  bound to @153/1/2                                          *)
(*   tag 4: T2[1]  bound to @153/1/3  (same instance, next attribute) -- or, with Foreign = TRUE, to @1/1/11: an    *)
(*          extra attribute of the Identity object, a CIP object that does not understand the Logix tag services  *)
(*          (reachable by Get / Set Attribute Single only; used by the bundles of C07)                            *)
(***************************************************************************)
EXTENDS Logix, Json

CONSTANTS T1, T2, Budget, Depth, Rich,  \* Rich: TRUE = larger request set
          Many,                          \* TRUE: twelve auto-allocated tags instead (allocation of many tags)
          Foreign                        \* TRUE: tag 4 lives in the Identity object

Chars(s) == s
ManyCfg == [ budget |-> Budget,
             \* (two names that differ only by a Latin-1 sharp s vs "ss": distinct tags)
             tags |-> [ i \in 1 .. 12 |-> [name |-> (IF i = 11 THEN <<77, 97, 223>> ELSE IF i = 12 THEN <<77, 97, 115, 115>> ELSE <<64 + i>>), type |-> (IF i % 3 = 0 THEN T2 ELSE T1),
                                           len |-> (IF i % 2 = 0 THEN 1 ELSE 2), scalar |-> (i % 2 = 0), cia |-> <<2, 1, i>>]
                                          \* (tags 4 and 5 are configured with a forced error code)
                                          @@ (IF i \in {4, 5} THEN [error |-> 16] ELSE <<>>) ] ]
FourCfg == [ budget |-> Budget,
          tags |-> << [name |-> <<65>>,        type |-> T1, len |-> 3, scalar |-> FALSE, cia |-> <<2, 1, 1>>],
                      [name |-> <<66, 98>>,    type |-> T1, len |-> 1, scalar |-> TRUE,  cia |-> (IF Foreign THEN <<2, 5, 1>> ELSE <<2, 1, 2>>)],
                      [name |-> <<67, 95, 51>>, type |-> T2, len |-> 2, scalar |-> FALSE, cia |-> <<153, 1, 2>>],
                      [name |-> <<68>>,        type |-> T2, len |-> 1, scalar |-> FALSE, cia |-> (IF Foreign THEN <<1, 1, 11>> ELSE <<153, 1, 3>>)] >> ]

MCfg == IF Many THEN ManyCfg ELSE FourCfg

Vals(t) == BVals(t)

NV == IF Rich THEN 4 ELSE 2
\* n values starting at rotation s
ValSeq(t, n, s) == [ i \in 1 .. n |-> Vals(t)[((s + i - 2) % NV) + 1] ]

\* request types tried against a tag of type U: itself, a narrower / wider / sign-flipped / float / BOOL neighbour
WriteTypes(U) ==
  {U} \cup
  (CASE U = "SINT" -> {"USINT", "INT", "BOOL"} [] U = "USINT" -> {"SINT", "UINT"}
     [] U = "INT" -> {"UINT", "SINT", "USINT", "DINT", "REAL"} [] U = "UINT" -> {"INT", "USINT", "UDINT"}
     [] U = "DINT" -> {"UDINT", "INT", "LINT", "REAL", "BOOL"} [] U = "UDINT" -> {"DINT", "UINT", "ULINT"}
     [] U = "LINT" -> {"ULINT", "DINT", "LREAL"} [] U = "ULINT" -> {"LINT", "UDINT", "SINT"}
     [] U = "REAL" -> {"LREAL", "INT", "UDINT", "BOOL"} [] U = "LREAL" -> {"REAL", "DINT", "LINT"}
     [] U = "BOOL" -> {"SINT", "USINT"} [] U = "SSTRING" -> {"STRING", "SINT"} [] U = "STRING" -> {"SSTRING", "INT"})

R(svc, tag, mode, idx, n, off, typ, vals, bytes) ==
  [svc |-> svc, tag |-> tag, mode |-> mode, idx |-> idx, n |-> n, off |-> off, typ |-> typ, vals |-> vals,
   bytes |-> bytes, ms |-> <<>>]

\* Get Attribute List / Get Attributes All on the objects that hold nothing but tags (not the Identity object of `Foreign')
ObjReqs(t) == LET a == MCfg.tags[t].cia[3] IN
  IF MCfg.tags[t].cia[1] = 1 THEN {} ELSE
  { R("gal", t, "cia", 0 - 1, 0, 0, T1, <<>>, <<>>) @@ [attrs |-> as] : as \in { <<a>>, <<a, 99>>, <<99, a, a>>, <<2, 1>>, <<>> } }
  \cup { R("gaa", t, "cia", 0 - 1, 0, 0, T1, <<>>, <<>>) }
TagReqs(t) ==
  LET T == MCfg.tags[t]  U == T.type  L == T.len  sz == Size(U)  szz == IF sz = 0 THEN 1 ELSE sz
      modes == IF Rich THEN {"sym", "cia"} ELSE (IF t % 2 = 1 THEN {"sym"} ELSE {"cia"})
  IN
  { R("read", t, m, i, n, 0, U, <<>>, <<>>) : m \in {"sym", "cia"}, i \in (0 - 1) .. L, n \in 0 .. (L + 1) }
  \cup
  { R("readf", t, m, i, n, off, U, <<>>, <<>>) :
       m \in modes, i \in (0 - 1) .. (L - 1), n \in 1 .. (L + 1),
       off \in {0, szz, 2 * szz, L * szz} \cup (IF sz > 1 THEN {sz - 1} ELSE {}) }
  \cup
  { R("write", t, m, i, n, 0, ty, ValSeq(ty, n, s), <<>>) :
       m \in modes, i \in (0 - 1) .. L, n \in 1 .. (L + 1), ty \in WriteTypes(U), s \in 1 .. NV }
  \cup
  { R("write", t, "sym", i, n, 0, U, ValSeq(U, n - 1, s), <<>>) : i \in {0 - 1, 0}, n \in 2 .. L, s \in 1 .. NV }       \* fewer values than declared
  \cup
  { R("writef", t, m, i, n, off, ty, ValSeq(ty, k, s), <<>>) :
       m \in modes, i \in 0 .. (L - 1), n \in 1 .. (L + 1), off \in {0, szz, 2 * szz},
       ty \in (IF Rich THEN WriteTypes(U) ELSE {U}), k \in 1 .. (L + 1), s \in 1 .. (IF Rich THEN NV ELSE 1) }
  \cup
  { R("writef", t, "sym", 0, L, off, ty, ValSeq(ty, 1, s), <<>>) :          \* cross-type fragments at every element offset
       off \in { j * szz : j \in 0 .. (L - 1) }, ty \in WriteTypes(U), s \in 1 .. NV }
  \cup
  (IF sz = 0 THEN {} ELSE
   { R("gas", t, "cia", 0 - 1, 0, 0, U, <<>>, <<>>) } \cup
   { R("sas", t, "cia", 0 - 1, 0, 0, U, <<>>, EncElems(U, ValSeq(U, k, s))) : k \in {L, L + 1} \cup (IF L > 1 THEN {L - 1} ELSE {}), s \in 1 .. NV })
  \cup ObjReqs(t)

UnknownReqs == { R("read", 0, "sym", 0 - 1, 1, 0, T1, <<>>, <<>>),
                 R("write", 0, "sym", 0, 1, 0, T1, ValSeq(T1, 1, 1), <<>>),
                 R("gal", 0, "noinst", 0 - 1, 0, 0, T1, <<>>, <<>>) @@ [attrs |-> <<1>>], R("gaa", 0, "noclass", 0 - 1, 0, 0, T1, <<>>, <<>>),
                 R("gas", 0, "class0", 0 - 1, 0, 0, T1, <<>>, <<>>) }
               \cup UNION { { R("read", 0, md, ix, 1, 0, T1, <<>>, <<>>), R("write", 0, md, ix, 1, 0, T1, ValSeq(T1, 1, 1), <<>>),
                             R("readf", 0, md, ix, 1, 0, T1, <<>>, <<>>) } : md \in {"noinst", "noclass"}, ix \in {0 - 1, 0} }

\* many-tags configuration: whole-tag reads and writes of every tag, both addressing modes
ManyReqs == UNION { { R("read", t, m, 0 - 1, MCfg.tags[t].len, 0, MCfg.tags[t].type, <<>>, <<>>) : m \in {"sym", "cia"} }
                    \cup { R("write", t, m, 0, MCfg.tags[t].len, 0, MCfg.tags[t].type,
                             ValSeq(MCfg.tags[t].type, MCfg.tags[t].len, 1 + (t % NV)), <<>>) : m \in {"sym", "cia"} }
                    : t \in 1 .. Len(MCfg.tags) }
MReqs == IF Many THEN ManyReqs ELSE UNION { TagReqs(t) : t \in 1 .. Len(MCfg.tags) } \cup UnknownReqs

\* ---- emission for replay: the request catalogue once, every distinct reachable memory
ASSUME PrintT(ToJson([k |-> "cfg", cfg |-> MCfg]))
ASSUME \A r \in MReqs : PrintT(ToJson([k |-> "req", r |-> r, b |-> EncReq(MCfg, r)]))
EmitMem == PrintT(ToJson([k |-> "mem", mem |-> mem, depth |-> depth]))
MemView == mem
MemDepth == <<mem, depth>>
\* writes only (the steps that change memory) when enumerating memories for emission
EmitNext == depth < MaxDepth /\ depth' = depth + 1
            /\ \E r \in { q \in MReqs : q.svc \in {"write", "writef", "sas"} } : Do(r)

\* ---- C07: bundles over a small basis of member requests (valid and invalid, all services, two objects)
FirstRefused(U) == CHOOSE ty \in AllTypes : MustRefuse(ty, U) /\ \A o \in AllTypes : MustRefuse(o, U) => TypeCode(ty) <= TypeCode(o)
CoreOf(t) ==
  LET T == MCfg.tags[t]  U == T.type  L == T.len  sz == Size(U)  szz == IF sz = 0 THEN 1 ELSE sz IN
  { R("read",  t, "sym", 0 - 1, L, 0, U, <<>>, <<>>),
    R("read",  t, "cia", 1, L, 0, U, <<>>, <<>>),                         \* beyond the end: refused
    R("readf", t, "sym", 0, L, szz, U, <<>>, <<>>),
    R("write", t, "sym", 1, 1, 0, U, ValSeq(U, 1, 1), <<>>),
    R("write", t, "cia", 0, L, 0, U, ValSeq(U, L, 2), <<>>),
    R("write", t, "sym", 0, 1, 0, FirstRefused(U), ValSeq(FirstRefused(U), 1, 1), <<>>),   \* type mismatch: refused
    R("writef", t, "sym", 0, L, szz, U, ValSeq(U, 1, 2), <<>>) }
  \cup (IF sz = 0 THEN {} ELSE
        { R("gas", t, "cia", 0 - 1, 0, 0, U, <<>>, <<>>),
          R("sas", t, "cia", 0 - 1, 0, 0, U, <<>>, EncElems(U, ValSeq(U, L, 2))) })
  \cup (IF t = 1 THEN { R("gal", t, "cia", 0 - 1, 0, 0, T1, <<>>, <<>>) @@ [attrs |-> <<MCfg.tags[t].cia[3], 99>>] } ELSE {})
\* ... and a member served by another kind of object (Get Attribute Single on the Identity object's attribute of tag 4)
CoreReqs == CoreOf(1) \cup CoreOf(3) \cup { R("read", 0, "sym", 0 - 1, 1, 0, T1, <<>>, <<>>) }
            \* members addressed numerically to an instance that does not exist (attribute 1 exists in @2/1: must not be served from there)
            \cup { R("read", 0, "noinst", 0 - 1, 1, 0, T1, <<>>, <<>>), R("write", 0, "noinst", 0, 1, 0, T1, ValSeq(T1, 1, 1), <<>>) }
            \* a member for the CLASS level (instance 0) of the Message Router: attribute number 1 exists in @2/1 as a tag, must not be served from there
            \cup { R("gas", 0, "class0", 0 - 1, 0, 0, T1, <<>>, <<>>) }
            \* members for the tag living in another instance of the Message Router's class
            \cup (IF Many \/ ~Foreign THEN {} ELSE { R("read", 2, "sym", 0 - 1, 1, 0, T1, <<>>, <<>>), R("write", 2, "sym", 0 - 1, 1, 0, T1, ValSeq(T1, 1, 2), <<>>) })
            \cup (IF Many \/ ~Foreign \/ Size(MCfg.tags[4].type) = 0 THEN {} ELSE { R("gas", 4, "cia", 0 - 1, 0, 0, MCfg.tags[4].type, <<>>, <<>>) })

Multi(ms) == [svc |-> "multi", tag |-> 0, mode |-> "sym", idx |-> 0 - 1, n |-> 0, off |-> 0, typ |-> T1, vals |-> <<>>,
              bytes |-> <<>>, ms |-> ms]
BundleSet(maxn) == UNION { [1 .. k -> CoreReqs] : k \in 1 .. maxn }
EmitBundle(ms) == LET mb == [ i \in 1 .. Len(ms) |-> EncReq(MCfg, ms[i]) ] IN
                  /\ MSPOffsetLaw(mb)
                  /\ PrintT(ToJson([k |-> "bundle", r |-> Multi(ms), b |-> EncReq(MCfg, Multi(ms)), mb |-> mb]))
=============================================================================
