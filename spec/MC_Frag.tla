------------------------------- MODULE MC_Frag ------------------------------
(***************************************************************************)
(* C04: fragmented transfers.  A client moves elements [start, start+n) of   *)
(* a tag with Read Tag Fragmented, advancing the byte offset by the amount   *)
(* of data received, or stores them with Write Tag Fragmented requests whose *)
(* offsets tile the range (in any order).  The device side is Logix!ReadOuts *)
(* / WriteOuts; every choice the statement leaves to the device (how many    *)
(* elements a fragment carries, within the bounds) is explored.              *)
(*                                                                         *)
(* One tag of type Ty; tag length 1..MaxLen, start, count and reply budget   *)
(* 1..2*size+3 are chosen in Init, so one run covers every alignment of      *)
(* range end versus budget boundary for the element size.                    *)
(***************************************************************************)
EXTENDS LogixOps, Json

CONSTANTS Ty, MaxLen, MaxBudget

sz == Size(Ty)
TagOf(L) == [name |-> <<70>>, type |-> Ty, len |-> L, scalar |-> FALSE, cia |-> <<2, 1, 1>>]
CfgOf(L, B) == [budget |-> B, tags |-> <<TagOf(L)>>]

\* distinguishable element values: element i holds i (BOOL: alternating)
ElemVal(i) == IF Ty = "BOOL" THEN (IF i % 2 = 1 THEN <<255>> ELSE <<0>>) ELSE <<i>> \o Zeros(sz - 1)
NewVal(i)  == IF Ty = "BOOL" THEN (IF i % 2 = 1 THEN <<0>> ELSE <<255>>) ELSE <<100 + i>> \o Zeros(sz - 1)
MemOf(L)   == << [ i \in 1 .. L |-> ElemVal(i) ] >>

RF(start, n, off) == [svc |-> "readf", tag |-> 1, mode |-> "sym", idx |-> start, n |-> n, off |-> off, typ |-> Ty,
                      vals |-> <<>>, bytes |-> <<>>, ms |-> <<>>]
WF(start, n, off, vals) == [svc |-> "writef", tag |-> 1, mode |-> "sym", idx |-> start, n |-> n, off |-> off, typ |-> Ty,
                      vals |-> vals, bytes |-> <<>>, ms |-> <<>>]

\* compositions of n into positive parts (tile sizes)
RECURSIVE Comps(_)
Comps(n) == IF n = 0 THEN { <<>> } ELSE UNION { { <<k>> \o c : c \in Comps(n - k) } : k \in 1 .. n }
RECURSIVE SumTo(_, _)
SumTo(c, j) == IF j = 0 THEN 0 ELSE c[j] + SumTo(c, j - 1)       \* sum of the first j parts

VARIABLES kind,      \* "read" | "write"
          L, B, start, n,
          off,       \* read: byte offset of the next request
          acc,       \* read: elements received so far
          st,        \* "run" | "done" | "failed"
          tiles,     \* write: tile sizes
          todo,      \* write: tiles not yet written
          fmem       \* device memory
fvars == <<kind, L, B, start, n, off, acc, st, tiles, todo, fmem>>

FInit == /\ L \in 1 .. MaxLen /\ B \in 1 .. MaxBudget
         /\ start \in 0 .. (L - 1) /\ n \in 1 .. (L - start)
         /\ off = 0 /\ acc = <<>> /\ st = "run" /\ fmem = MemOf(L)
         /\ \/ kind = "read" /\ tiles = <<>> /\ todo = {}
            \/ kind = "write" /\ n <= 4 /\ tiles \in Comps(n) /\ todo = 1 .. Len(tiles)

ReadStep ==
  /\ kind = "read" /\ st = "run"
  /\ \E o \in ReadOuts(CfgOf(L, B), fmem, RF(start, n, off)) :
        IF o.k # "ok" THEN st' = "failed" /\ UNCHANGED <<off, acc>>
        ELSE /\ acc' = acc \o o.data
             /\ off' = off + Len(o.data) * sz
             /\ st' = IF o.st = 0 THEN "done" ELSE "run"
  /\ UNCHANGED <<kind, L, B, start, n, tiles, todo, fmem>>

TileVals(j) == LET f == SumTo(tiles, j - 1) IN [ i \in 1 .. tiles[j] |-> NewVal(start + f + i) ]
WriteStep ==
  /\ kind = "write" /\ st = "run"
  /\ \E j \in todo :
       \E o \in WriteOuts(CfgOf(L, B), fmem, WF(start, n, SumTo(tiles, j - 1) * sz, TileVals(j))) :
          IF o.k # "ok" THEN st' = "failed" /\ UNCHANGED <<todo, fmem>>
          ELSE /\ fmem' = o.mem /\ todo' = todo \ {j}
               /\ st' = IF todo' = {} THEN "done" ELSE "run"
  /\ UNCHANGED <<kind, L, B, start, n, off, acc, tiles>>

FNext == ReadStep \/ WriteStep
FSpec == FInit /\ [][FNext]_fvars /\ WF_fvars(FNext)

\* ---- C04 on the specification
NeverFails   == st # "failed"
Window       == Max2(1, CeilDiv(B, sz))
\* every fragment: at least one whole element, at most the budget rounded up to a whole element
FragmentSize == [][ kind = "read" /\ st' # "failed" =>
                      LET k == Len(acc') - Len(acc) IN k >= 1 /\ k <= Window ]_fvars
\* 0x06 until the final fragment, 0x00 on it; reassembly is exact
Reassembly   == (kind = "read" /\ st = "done") => acc = SubSeq(fmem[1], start + 1, start + n)
InProgress   == (kind = "read" /\ st = "run") => /\ Len(acc) < n /\ off = Len(acc) * sz
                                                 /\ acc = SubSeq(fmem[1], start + 1, start + Len(acc))
\* tiling writes store exactly the range and nothing else
Tiled        == (kind = "write" /\ st = "done") =>
                  fmem[1] = [ i \in 1 .. L |-> IF i > start /\ i <= start + n THEN NewVal(i) ELSE ElemVal(i) ]
Progress     == <>(st = "done")

\* ---- emission of the cases for replay: every (L, B, start, n) with the requests for every offset / tile
EmitCase ==
  st # "run" \/ off # 0 \/ todo # (1 .. Len(tiles)) \/
  PrintT(ToJson(
    IF kind = "read"
    THEN [k |-> "rd", cfg |-> CfgOf(L, B), mem |-> fmem, start |-> start, n |-> n,
          data |-> EncElems(Ty, SubSeq(fmem[1], start + 1, start + n)),
          reqs |-> [ j \in 1 .. n |-> [r |-> RF(start, n, (j - 1) * sz), b |-> EncReq(CfgOf(L, B), RF(start, n, (j - 1) * sz))] ]]
    ELSE [k |-> "wr", cfg |-> CfgOf(L, B), mem |-> fmem, start |-> start, n |-> n,
          final |-> << [ i \in 1 .. L |-> IF i > start /\ i <= start + n THEN NewVal(i) ELSE ElemVal(i) ] >>,
          reqs |-> [ j \in 1 .. Len(tiles) |->
                      LET q == WF(start, n, SumTo(tiles, j - 1) * sz, TileVals(j)) IN [r |-> q, b |-> EncReq(CfgOf(L, B), q)] ]]))
EmitInitOnly == FALSE /\ UNCHANGED fvars
=============================================================================
