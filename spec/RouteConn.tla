----------------------------- MODULE RouteConn -----------------------------
(* The ONE connection a routing simulator keeps to the remote device of a [UCMM] Route, shared by all of its sessions            *)
(* (ucmm.UCMM.request, `with self.route_conn[target] as conn: conn.unconnected_send(...); client.await_response( conn )').        *)
(* The remote device answers the forwarded requests in the order they arrive on that connection, so the reply a session reads    *)
(* is the reply to the OLDEST unanswered forwarded request: a session gets its own reply only if nobody else's request can be     *)
(* on the wire while it sends and waits.  One action per step of the code:                                                         *)
(*   Acquire(s)  take exclusive use of the connection (connector.__enter__: the lock of its frame parser)                         *)
(*   Send(s)     forward the session's request (connector.unconnected_send)                                                       *)
(*   Answer(s)   the remote device has answered the oldest forwarded request; s reads that reply (client.await_response)          *)
(*   Release(s)  give the connection up (connector.__exit__); the reply goes back to the session's own client                     *)
(*   Establish(s) the first use creates the connection: its Register Session exchange, under exclusive use, nothing forwarded       *)
(* Discipline = "hold" is the code: Send and Answer only while holding.  Discipline = "send-first" is the DEVIATION of the seeded *)
(* change C09-17 (send before taking the connection): TLC finds OwnReply violated, i.e. the invariant is not vacuous.             *)
(* Discipline = "any" admits both (trace validation: the log is followed either way and judged by OwnReply alone).                *)
EXTENDS Naturals, Sequences, FiniteSets
CONSTANTS Sess, MaxReq, Discipline
VARIABLES holder, pc, n, wire, got
cvars == <<holder, pc, n, wire, got>>
None == 0
CInit == /\ holder = None /\ pc = [s \in Sess |-> "idle"] /\ n = [s \in Sess |-> 0] /\ wire = <<>> /\ got = [s \in Sess |-> <<>>]
\* the code: take the connection, then forward
AcquireIdle(s) == /\ holder = None /\ n[s] < MaxReq /\ pc[s] = "idle"
                  /\ holder' = s /\ pc' = [pc EXCEPT ![s] = "held"] /\ UNCHANGED <<n, wire, got>>
SendHeld(s) == /\ holder = s /\ pc[s] = "held" /\ n[s] < MaxReq
               /\ wire' = Append(wire, <<s, n[s] + 1>>) /\ pc' = [pc EXCEPT ![s] = "wait"] /\ UNCHANGED <<holder, n, got>>
\* DEVIATION (not the code; seeded change C09-17): forward first, take the connection only to wait for the reply
SendFree(s) == /\ holder # s /\ pc[s] = "idle" /\ n[s] < MaxReq
               /\ wire' = Append(wire, <<s, n[s] + 1>>) /\ pc' = [pc EXCEPT ![s] = "sent"] /\ UNCHANGED <<holder, n, got>>
AcquireSent(s) == /\ holder = None /\ pc[s] = "sent"
                  /\ holder' = s /\ pc' = [pc EXCEPT ![s] = "wait"] /\ UNCHANGED <<n, wire, got>>
\* DEVIATION (not the code): give the connection up between forwarding and reading the reply; it is taken again (AcquireSent) to read
ReleaseWaiting(s) == /\ holder = s /\ pc[s] = "wait"
                     /\ holder' = None /\ pc' = [pc EXCEPT ![s] = "sent"] /\ UNCHANGED <<n, wire, got>>
Hold == Discipline \in {"hold", "any"}
Free == Discipline \in {"send-first", "any"}
Acquire(s) == (Hold /\ AcquireIdle(s)) \/ (Free /\ AcquireSent(s))
Send(s) == (Hold /\ SendHeld(s)) \/ (Free /\ SendFree(s))
Answer(s) == /\ holder = s /\ pc[s] = "wait" /\ wire # <<>>
             /\ got' = [got EXCEPT ![s] = Append(@, Head(wire))] /\ wire' = Tail(wire)
             /\ pc' = [pc EXCEPT ![s] = "rcvd"] /\ UNCHANGED <<holder, n>>
Release(s) == /\ holder = s /\ pc[s] = "rcvd"
              /\ holder' = None /\ pc' = [pc EXCEPT ![s] = "idle"] /\ n' = [n EXCEPT ![s] = @ + 1] /\ UNCHANGED <<wire, got>>
\* connector creation: the Register Session exchange with the remote device happens under the same exclusive use, with nothing of any
\* session on the wire; the connection is given up again without a request having been forwarded
Establish(s) == /\ Hold /\ holder = s /\ pc[s] = "held" /\ wire = <<>>
                /\ holder' = None /\ pc' = [pc EXCEPT ![s] = "idle"] /\ UNCHANGED <<n, wire, got>>
CNext == \E s \in Sess : Acquire(s) \/ Send(s) \/ Answer(s) \/ Release(s) \/ Establish(s) \/ (Free /\ ReleaseWaiting(s))
CSpec == CInit /\ [][CNext]_cvars /\ WF_cvars(CNext) /\ SF_cvars(\E s \in Sess : Send(s))
\* every session reads the replies to its own requests, in its own order
OwnReply == \A s \in Sess : \A i \in 1 .. Len(got[s]) : got[s][i] = <<s, i>>
\* nobody else's request is on the wire while a session holds the connection
WireOwned == \A i \in 1 .. Len(wire) : wire[i][1] = holder
OneHolder == holder \in Sess \cup {None} /\ \A s \in Sess : pc[s] \in {"held", "wait", "rcvd"} => (Discipline = "hold" => holder = s)
AllServed == <>(\A s \in Sess : n[s] = MaxReq)
=============================================================================
