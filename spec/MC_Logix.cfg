SPECIFICATION Spec
CHECK_DEADLOCK FALSE
INVARIANT TypeOK
INVARIANT Readable
PROPERTY FrameOK
PROPERTY RefusedNoChange
PROPERTY ReadsMemory
VIEW MemDepth
CONSTANTS
 T1 = "INT"
 T2 = "DINT"
 Budget = 4
 Depth = 2
 Rich = FALSE
 Many = FALSE
 Foreign = FALSE
 Cfg <- MCfg
 Reqs <- MReqs
 InitVals = "zero"
 MaxDepth <- Depth
