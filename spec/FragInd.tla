------------------------------ MODULE FragInd -------------------------------
(***************************************************************************)
(* C04, the arithmetic of a fragmented transfer for ANY transfer length,      *)
(* element size and reply budget (TLC checks MC_Frag for lengths 1..7 only).   *)
(* Checked with Apalache as an inductive invariant:                           *)
(*   apalache-mc check --cinit=CInit --init=Init    --inv=IndInv --length=0    *)
(*   apalache-mc check --cinit=CInit --init=IndInit --inv=IndInv --length=1    *)
(*   apalache-mc check --cinit=CInit --init=IndInit --inv=Live   --length=0    *)
(* Elements are abstract (positions 1..N); what is proved is the tiling: the   *)
(* client's next byte offset always equals the octets received, fragments      *)
(* neither overlap nor leave gaps, status 0 is given exactly with the last     *)
(* element, every fragment carries between 1 and max(1, ceil(B/S)) elements,   *)
(* and a transfer needs at most N fragments.                                   *)
(***************************************************************************)
EXTENDS Integers

CONSTANTS
  \* @type: Int;
  N,
  \* @type: Int;
  S,
  \* @type: Int;
  B

VARIABLES
  \* @type: Int;
  got,
  \* @type: Int;
  off,
  \* @type: Int;
  last,
  \* @type: Int;
  steps

CInit == N \in Int /\ S \in {1, 2, 4, 8} /\ B \in Int /\ N >= 1 /\ B >= 1

\* most elements one reply may carry: the budget rounded up to a whole element, at least one
W == IF B % S = 0 THEN B \div S ELSE B \div S + 1

Init == got = 0 /\ off = 0 /\ last = 0 - 1 /\ steps = 0

\* one fragment: the client asks at byte offset `off', the server answers k elements from there
Next == /\ last # 0
        /\ \E k \in Int :
             /\ 1 <= k /\ k <= W /\ k <= N - (off \div S)
             /\ got' = got + k
             /\ off' = off + k * S
             /\ last' = IF (off \div S) + k = N THEN 0 ELSE 6
             /\ steps' = steps + 1

IndInv == /\ 0 <= got /\ got <= N
          /\ off = got * S                                   \* no gap, no overlap: next offset = octets received
          /\ 0 <= steps /\ steps <= got                      \* every fragment made progress
          /\ last \in {0 - 1, 0, 6}
          /\ (last = 0 - 1) = (steps = 0)
          /\ (steps = 0) => (got = 0)
          /\ (last = 0) = (got = N /\ steps > 0)             \* status 0 exactly with the last element
          /\ (last = 6) => (got < N /\ steps > 0)

IndInit == got \in Int /\ off \in Int /\ last \in {0 - 1, 0, 6} /\ steps \in Int /\ IndInv

\* a transfer that is not complete can always continue (with at least one element): it never gets stuck
Live == (last # 0) => (N - (off \div S) >= 1 /\ W >= 1)
=============================================================================
