SPECIFICATION TSpec
CONSTANTS
 Sess = {1, 2, 3}
 MaxReq = 1000
 Discipline = "any"
INVARIANT Verdict
INVARIANT Own
CHECK_DEADLOCK FALSE
