------------------------------- MODULE MC_Wire ------------------------------
(***************************************************************************)
(* C01: vectors of the wire grammar.  For every message m of a bounded       *)
(* domain (boundary values per field) the module emits m together with       *)
(* Enc(m) as computed by the layout tables of CIPWire, and checks the layout  *)
(* laws on each: even EPATH length, size octet = words, unique decoding of    *)
(* EPATH, Multiple Service Packet offset law.                                 *)
(* Which selects the sub-grammar: "epath" | "status" | "typed" | "logix" | "ucsend" | "frames". *)
(***************************************************************************)
EXTENDS LogixOps, Json

CONSTANTS Which, Deep      \* Deep: TRUE = longer paths / more values

Name255 == [ i \in 1 .. 255 |-> 65 + (i % 26) ]
SegPool ==
  { [k |-> "class", v |-> x] : x \in {1, 255, 256, 65535} } \cup
  { [k |-> "inst", v |-> x] : x \in {0, 1, 255, 256, 65535} } \cup
  { [k |-> "attr", v |-> x] : x \in {1, 255, 256} } \cup
  { [k |-> "elem", v |-> x] : x \in {0, 255, 256, 65535, 65536, 2147483647} } \cup
  { [k |-> "elem32", w |-> <<65535, 65535>>], [k |-> "elem32", w |-> <<0, 32768>>] } \cup
  { [k |-> "conn", v |-> x] : x \in {1, 300} } \cup
  { [k |-> "sym", s |-> x] : x \in { <<65>>, <<65, 66>>, <<83, 67, 65, 68, 65, 95, 52>>, Name255 } } \cup
  { [k |-> "port", p |-> x[1], l |-> x[2]] : x \in { <<1, 0>>, <<14, 255>>, <<15, 1>>, <<65535, 7>> } } \cup
  { [k |-> "porta", p |-> x[1], a |-> x[2]] : x \in { <<2, <<49, 46, 50, 46, 51, 46, 52>>>>, <<1, <<97>>>>, <<17, <<97, 98>>>>,
                                                      <<15, <<49, 48, 46, 48, 46, 48, 46, 49, 48>>>> } }
SmallPool == { g \in SegPool : g.k \in {"class", "inst", "attr"} => g.v \in {1, 256} }
AllPaths == { <<>> } \cup { <<a>> : a \in SegPool } \cup { <<a, b>> : a \in SegPool, b \in SegPool }
         \cup (IF Deep THEN { <<a, b, c>> : a \in SmallPool, b \in SmallPool, c \in SmallPool } ELSE
               { <<a, b, c>> : a \in { [k |-> "class", v |-> 2], [k |-> "sym", s |-> <<65>>] }, b \in SmallPool, c \in { g \in SmallPool : g.k \in {"elem", "attr", "port"} } })

\* the size octet counts words: a path has at most 255 words
Paths == { p \in AllPaths : Len(EncSegs(p)) <= 510 }

\* values >= 65536 given as "elem" decode as the 32-bit limb form
CanonSegs(segs) == [ i \in 1 .. Len(segs) |-> IF segs[i].k = "elem" /\ segs[i].v >= 65536
                                          THEN [k |-> "elem32", w |-> <<segs[i].v % 65536, segs[i].v \div 65536>>] ELSE segs[i] ]
EPathLaws(segs) ==
  LET b == EncEPATH(segs)  p == EncEPATHpad(segs) IN
  /\ Len(b) % 2 = 1 /\ b[1] * 2 = Len(b) - 1                        \* size octet counts words; segments even
  /\ Len(p) = Len(b) + 1 /\ p[2] = 0
  /\ DecEPATH(b) = CanonSegs(segs)                                       \* uniquely decodable
EmitEPath(segs) == EPathLaws(segs) /\ PrintT(ToJson([k |-> "epath", segs |-> segs, b |-> EncEPATH(segs), bp |-> EncEPATHpad(segs),
                                                        bs |-> IF Len(segs) = 1 THEN EncSegs(segs) ELSE <<>>]))

StatusDomain == { <<st, ext>> : st \in {0, 1, 5, 6, 8, 255}, ext \in { <<>> } } \cup
                { <<st, ext>> : st \in {1, 5, 255}, ext \in { <<0>>, <<8453>>, <<8455, 65535>>, <<1, 2, 3>> } }
EmitStatus(x) == PrintT(ToJson([k |-> "status", st |-> x[1], ext |-> x[2], b |-> EncStatus(x[1], x[2])]))

TypedDomain == { <<t, vs>> : t \in AllTypes, vs \in { <<>> } } \cup
               UNION { { <<t, <<BVals(t)[i]>>>> : i \in 1 .. 4 } \cup { <<t, <<BVals(t)[i], BVals(t)[j]>>>> : i \in 1 .. 4, j \in 1 .. 4 }
                       \cup { <<t, <<BVals(t)[1], BVals(t)[2], BVals(t)[3], BVals(t)[4]>>>> } : t \in AllTypes }
EmitTyped(x) == PrintT(ToJson([k |-> "typed", t |-> x[1], code |-> TypeCode(x[1]), vals |-> x[2], b |-> EncElems(x[1], x[2])]))

\* the fourteenth element type: STRUCT (0x02A0) -- a structure handle followed by the record's octets (opaque)
StructDomain == { <<h, raw>> : h \in {1, 4660, 65535}, raw \in { <<>>, <<7>>, <<1, 2, 3, 4, 5>>, <<0, 0, 0, 0, 255, 255, 255, 255>> } }
EmitStruct(x) == PrintT(ToJson([k |-> "struct", handle |-> x[1], raw |-> x[2], b |-> U16(x[1]) \o x[2]]))

\* Logix / attribute services and the Multiple Service Packet: requests, and every reply the model allows
WCfg == [ budget |-> 6,
          tags |-> << [name |-> <<83, 67, 65, 68, 65>>, type |-> "INT", len |-> 4, scalar |-> FALSE, cia |-> <<2, 1, 1>>],
                      [name |-> <<86>>, type |-> "REAL", len |-> 1, scalar |-> TRUE, cia |-> <<2, 1, 2>>],
                      [name |-> <<83, 116>>, type |-> "SSTRING", len |-> 2, scalar |-> FALSE, cia |-> <<768, 1, 300>>] >> ]
WMem == << << <<1, 0>>, <<255, 127>>, <<0, 128>>, <<255, 255>> >>, << <<0, 0, 32, 64>> >>, << <<97, 98, 99>>, <<>> >> >>
Q(svc, tag, mode, idx, n, off, typ, vals, bytes) ==
  [svc |-> svc, tag |-> tag, mode |-> mode, idx |-> idx, n |-> n, off |-> off, typ |-> typ, vals |-> vals, bytes |-> bytes, ms |-> <<>>]
WReqs ==
  { Q("read", t, m, i, n, 0, "INT", <<>>, <<>>) : t \in {1, 3}, m \in {"sym", "cia"}, i \in {0 - 1, 0, 3}, n \in {1, 2, 5} } \cup
  { Q("readf", 1, m, 0, 4, off, "INT", <<>>, <<>>) : m \in {"sym", "cia"}, off \in {0, 2, 6, 8} } \cup
  { Q("write", 1, "sym", i, k, 0, ty, [ j \in 1 .. k |-> BVals(ty)[j + 1] ], <<>>) :
       i \in {0, 2}, ty \in (AllTypes \ {"BOOL"}), k \in {1, 2} } \cup
  { Q("write", 3, "sym", 0, Len(vs), 0, "SSTRING", vs, <<>>) : vs \in { << <<97>> >>, << <<97, 98>>, <<>> >> } } \cup
  { Q("write", 2, "cia", 0 - 1, 1, 0, "REAL", << <<0, 0, 128, 63>> >>, <<>>) } \cup
  { Q("writef", 1, "sym", 0, 4, off, "INT", vs, <<>>) : off \in {0, 4}, vs \in { << <<1, 0>> >>, << <<1, 0>>, <<2, 0>> >> } } \cup
  { Q("gas", t, "cia", 0 - 1, 0, 0, "INT", <<>>, <<>>) : t \in {1, 2} } \cup
  { Q("sas", 1, "cia", 0 - 1, 0, 0, "INT", <<>>, bs) : bs \in { <<1, 0, 2, 0, 3, 0, 4, 0>>, <<1, 0>> } } \cup
  { Q("read", 0, "sym", 0 - 1, 1, 0, "INT", <<>>, <<>>) } \cup
  \* Get Attribute List (1..4 attribute numbers at their width boundaries, present and absent ones) and Get Attributes All
  { [Q("gal", t, "cia", 0 - 1, 0, 0, "INT", <<>>, <<>>) EXCEPT !.svc = "gal"] @@ [attrs |-> as] :
       t \in {1, 3}, as \in { <<1>>, <<2, 1>>, <<300>>, <<1, 99, 2>>, <<65535, 256, 255, 1>> } } \cup
  { Q("gaa", t, "cia", 0 - 1, 0, 0, "INT", <<>>, <<>>) : t \in {1, 3} }
WTypeOf(r) == IF r.svc \in {"write", "writef"} THEN r.typ ELSE "INT"
EncOutW(C, r, o) ==
  LET svc == SvcCode(r) IN
  CASE o.k = "ok" /\ r.svc \in {"read", "readf"} -> EncReadReply(svc, o.st, <<>>, C.tags[r.tag].type, o.data)
    [] o.k = "ok" -> EncPlainReply(svc, 0, <<>>)
    [] o.k = "okbytes" -> EncDataReply(svc, 0, <<>>, o.data)
    [] o.k = "err" -> EncPlainReply(svc, o.st, o.ext)
    [] o.k = "anyfail" -> EncPlainReply(svc, 5, <<0>>)
EmitLogix(r) ==
  /\ PrintT(ToJson([k |-> "lreq", cfg |-> WCfg, r |-> r, b |-> EncReq(WCfg, r)]))
  /\ \A o \in SingleOuts(WCfg, WMem, r) :
        PrintT(ToJson([k |-> "lrpy", cfg |-> WCfg, r |-> r, o |-> [k |-> o.k, st |-> o.st, ext |-> o.ext, data |-> o.data],
                       t |-> (IF r.tag = 0 THEN "INT" ELSE WCfg.tags[r.tag].type), b |-> EncOutW(WCfg, r, o)]))
Bundles == { <<a>> : a \in WReqs } \cup (IF Deep THEN { <<a, b>> : a \in WReqs, b \in WReqs }
                                          ELSE { <<a, b, c>> : a \in { x \in WReqs : x.svc = "write" /\ x.tag = 1 },
                                                               b \in { x \in WReqs : x.svc = "readf" }, c \in { x \in WReqs : x.svc \in {"gas", "sas"} } })
EmitBundleW(ms) ==
  LET mb == [ i \in 1 .. Len(ms) |-> EncReq(WCfg, ms[i]) ]
      rb == [ i \in 1 .. Len(ms) |-> EncOutW(WCfg, ms[i], CHOOSE o \in SingleOuts(WCfg, WMem, ms[i]) : TRUE) ]
  IN /\ MSPOffsetLaw(mb) /\ MSPOffsetLaw(rb) /\ DecMSPBody(EncMSPBody(rb)) = rb
     /\ PrintT(ToJson([k |-> "msp", cfg |-> WCfg, ms |-> ms, b |-> EncMultiple(mb), mb |-> mb, rb |-> rb,
                       rpy |-> EncMultipleReply(0, <<>>, rb)]))

\* Unconnected Send wrappers: message of odd and even length, route paths of 0..2 segments
RoutePool == { <<>>, << [k |-> "port", p |-> 1, l |-> 0] >>, << [k |-> "port", p |-> 15, l |-> 1] >>,
               << [k |-> "porta", p |-> 2, a |-> <<49, 46, 50, 46, 51, 46, 52>>] >>,
               << [k |-> "port", p |-> 1, l |-> 0], [k |-> "port", p |-> 2, l |-> 3] >> }
UCDomain == { <<prio, ticks, msg, rt>> : prio \in {1, 5}, ticks \in {0, 157, 255},
                msg \in { EncReq(WCfg, r) : r \in { x \in WReqs : x.svc \in {"read", "write"} /\ x.tag = 1 /\ x.mode = "sym" } }, rt \in RoutePool }
EmitUC(x) == PrintT(ToJson([k |-> "ucsend", prio |-> x[1], ticks |-> x[2], msg |-> x[3], route |-> x[4],
                            b |-> EncUnconnectedSend(x[1], x[2], x[3], x[4])]))

\* Complete frames: header fields at their boundaries, each command
SessPool == { <<0, 0, 0, 0>>, <<1, 0, 0, 0>>, <<255, 255, 255, 127>>, <<0, 0, 0, 128>>, <<255, 255, 255, 255>> }
CtxPool  == { <<0, 0, 0, 0, 0, 0, 0, 0>>, <<1, 2, 3, 4, 5, 6, 7, 8>>, <<255, 255, 255, 255, 255, 255, 255, 255>> }
FrameDomain ==
  { [cmd |-> c, sess |-> s, status |-> st, ctx |-> x, options |-> 0, kind |-> "plain", payload |-> <<>>] :
       c \in {CmdUnregister, CmdListServices, CmdListIdentity, CmdListInterfaces}, s \in SessPool, st \in {0}, x \in CtxPool } \cup
  { [cmd |-> CmdRegister, sess |-> s, status |-> st, ctx |-> x, options |-> 0, kind |-> "register", payload |-> RegisterPayload] :
       s \in SessPool, st \in {0, 1, 105}, x \in CtxPool } \cup
  { [cmd |-> CmdSendRR, sess |-> s, status |-> 0, ctx |-> x, options |-> 0, kind |-> "rr",
     payload |-> EncSendData(tm, <<NullAddr, UnconnData(msg)>>), tmo |-> tm, cip |-> msg] :
       s \in {<<1, 0, 0, 0>>, <<255, 255, 255, 255>>}, x \in CtxPool, tm \in {0, 5, 65535},
       msg \in { EncReq(WCfg, r) : r \in { q \in WReqs : q.svc \in {"read", "write", "gas"} /\ q.tag = 1 } }
               \cup { EncUnconnectedSend(5, 157, EncReq(WCfg, Q("read", 1, "sym", 0, 1, 0, "INT", <<>>, <<>>)), rt) : rt \in RoutePool } } \cup
  { [cmd |-> CmdSendUnit, sess |-> <<1, 0, 0, 0>>, status |-> 0, ctx |-> x, options |-> 0, kind |-> "unit",
     payload |-> EncSendData(0, <<ConnAddr(cid), ConnData(sq, msg)>>), cid |-> cid, seq |-> sq, cip |-> msg] :
       x \in CtxPool, cid \in { <<1, 0, 0, 0>>, <<255, 255, 255, 255>> }, sq \in {0, 1, 65535},
       msg \in { EncReq(WCfg, Q("read", 1, "sym", 0, 1, 0, "INT", <<>>, <<>>)) } }
\* one frame whose length field has its top bit set: a SendRRData carrying a Set Attribute Single of 32760 octets (32784 payload octets)
BigMsg == EncSetAttrSingle(CIASegs(<<2, 1, 1>>), Rep(7, 32760))
BigFrames == { [cmd |-> CmdSendRR, sess |-> <<1, 0, 0, 0>>, status |-> 0, ctx |-> <<1, 2, 3, 4, 5, 6, 7, 8>>, options |-> 0, kind |-> "rr",
                payload |-> EncSendData(5, <<NullAddr, UnconnData(BigMsg)>>), tmo |-> 5, cip |-> BigMsg] }
\* List Identity / List Services replies: boundary values of every field (state 0 and 255, empty and long names)
IdentDomain ==
  { [version |-> 1, family |-> 2, port |-> 44818, addr |-> <<10, 161, 1, 5>>, vendor |-> vd, devtype |-> 14, product |-> 54, revision |-> 2836,
     status |-> 12640, serial |-> <<26, 6, 108, 0>>, name |-> nm, state |-> st] :
       vd \in {1, 65535}, st \in {0, 3, 255},
       nm \in { <<>>, <<65>>, <<49, 55, 53, 54, 45, 76, 54, 49, 47, 66, 32, 76, 79, 71, 73, 88, 53, 53, 54, 49>> } }
ServDomain == { [version |-> 1, capability |-> cp, name |-> nm] : cp \in {32, 288, 0},
                 nm \in { <<67, 111, 109, 109, 117, 110, 105, 99, 97, 116, 105, 111, 110, 115>>, <<67>> } }
ListFrames ==
  { [cmd |-> CmdListIdentity, sess |-> <<0, 0, 0, 0>>, status |-> 0, ctx |-> x, options |-> 0, kind |-> "identity",
     payload |-> EncCPF(<<EncIdentityItem(it)>>), item |-> it] : x \in {<<1, 2, 3, 4, 5, 6, 7, 8>>}, it \in IdentDomain } \cup
  { [cmd |-> CmdListServices, sess |-> <<0, 0, 0, 0>>, status |-> 0, ctx |-> x, options |-> 0, kind |-> "services",
     payload |-> EncCPF(<<EncServicesItem(it)>>), item |-> it] : x \in {<<1, 2, 3, 4, 5, 6, 7, 8>>}, it \in ServDomain }
EmitFrame(f) == PrintT(ToJson([k |-> "frame", f |-> f, b |-> EncEnip(f.cmd, f.sess, f.status, f.ctx, f.options, f.payload)]))

\* Connection Manager: sizes on both sides of the small/large boundary (511/512), all flag bits, id boundaries
Side(id, rpi, size, variable, priority, type, redundant) ==
  [id |-> id, rpi |-> rpi, size |-> size, variable |-> variable, priority |-> priority, type |-> type, redundant |-> redundant]
IdPool == { <<1, 0, 0, 0>>, <<255, 255, 255, 255>>, <<0, 0, 0, 128>> }
Sizes == {1, 510, 511, 512, 4000, 65535}
CPaths == { << [k |-> "port", p |-> 1, l |-> 0], [k |-> "class", v |-> 2], [k |-> "inst", v |-> 1] >>,
            << [k |-> "class", v |-> 2], [k |-> "inst", v |-> 1] >>,
            << [k |-> "porta", p |-> 2, a |-> <<49, 46, 50, 46, 51, 46, 52>>], [k |-> "port", p |-> 1, l |-> 0], [k |-> "class", v |-> 2], [k |-> "inst", v |-> 1] >> }
FODomain ==
  { [prio |-> 5, ticks |-> 157, ot |-> Side(i1, <<64, 66, 15, 0>>, s1, v1, p1, t1, r1), to |-> Side(i2, <<255, 255, 255, 127>>, s2, 1, 0, 2, 0),
     serial |-> ser, vendor |-> 4919, oserial |-> <<120, 86, 52, 18>>, mult |-> 1, trigger |-> 163, cpath |-> cp] :
       i1 \in IdPool, i2 \in {<<2, 0, 0, 0>>}, s1 \in Sizes, s2 \in Sizes, v1 \in {0, 1}, p1 \in {0, 3}, t1 \in {0, 2, 3}, r1 \in {0, 1},
       ser \in {1, 65535}, cp \in CPaths }
FOSmall == { f \in FODomain : (f.ot.variable = 1 /\ f.ot.priority = 0 /\ f.ot.type = 2 /\ f.ot.redundant = 0 /\ f.serial = 1 /\ f.ot.id = <<1, 0, 0, 0>>)
                               \* a Null, fixed, low-priority, exclusive connection: all flag bits zero (ambiguous NCP in a Large Forward Open)
                               \/ (f.ot.variable = 0 /\ f.ot.priority = 0 /\ f.ot.type = 0 /\ f.ot.redundant = 0 /\ f.serial = 1 /\ f.ot.id = <<1, 0, 0, 0>>)
                               \/ (f.ot.size = 510 /\ f.to.size = 510 /\ f.cpath = << [k |-> "class", v |-> 2], [k |-> "inst", v |-> 1] >>) }
EmitFO(f) == PrintT(ToJson([k |-> "fwd", f |-> f, large |-> IsLargeFO(f.ot, f.to), b |-> EncForwardOpen(f),
                            rpy |-> EncForwardOpenReply(f, <<64, 66, 15, 0>>, <<128, 132, 30, 0>>), fail |-> EncForwardOpenFail(f, 1, <<256>>),
                            close |-> EncForwardClose(f), closerpy |-> EncForwardCloseReply(f),
                            \* a failure reply for a routing error also tells how many words of the path remained: none, or some
                            failrp |-> [ n \in 1 .. 2 |-> [rps |-> n - 1, b |-> EncForwardOpenFail(f, 1, <<785>>) \o <<n - 1, 0>>] ],
                            apps |-> [ n \in 1 .. 4 |-> LET app == SubSeq(<<7, 8, 9, 10>>, 1, n) IN
                                       [app |-> app, rpy |-> EncForwardOpenReplyApp(f, <<64, 66, 15, 0>>, <<128, 132, 30, 0>>, app),
                                        closerpy |-> EncForwardCloseReplyApp(f, app)] ]]))

\* Common Packet Format lists of 0..3 items: every item kind the library knows plus items it does not (kept as raw octets)
RawItem(ty, raw) == [kind |-> "raw", type |-> ty, raw |-> raw, b |-> EncCPFItem(ty, raw)]
CPFItems ==
  LET msg == EncReq(WCfg, Q("read", 1, "sym", 0, 1, 0, "INT", <<>>, <<>>)) IN
  { [kind |-> "null", type |-> 0, b |-> NullAddr],
    [kind |-> "ucdata", type |-> 178, msg |-> msg, b |-> UnconnData(msg)],
    [kind |-> "connaddr", type |-> 161, cid |-> <<4, 3, 2, 129>>, b |-> ConnAddr(<<4, 3, 2, 129>>)],
    [kind |-> "conndata", type |-> 177, seq |-> 65535, msg |-> msg, b |-> ConnData(65535, msg)],
    [kind |-> "services", type |-> 256, item |-> [version |-> 1, capability |-> 288, name |-> <<67, 111, 109>>],
     b |-> EncServicesItem([version |-> 1, capability |-> 288, name |-> <<67, 111, 109>>])],
    [kind |-> "legacy", type |-> 1, item |-> [version |-> 1, family |-> 2, port |-> 44818, addr |-> <<192, 168, 5, 253>>, text |-> <<49, 57, 50, 46, 49, 54, 56, 46, 53, 46, 50, 53, 51>>],
     b |-> EncLegacyItem([version |-> 1, family |-> 2, port |-> 44818, addr |-> <<192, 168, 5, 253>>, text |-> <<49, 57, 50, 46, 49, 54, 56, 46, 53, 46, 50, 53, 51>>])],
    RawItem(32768, <<0, 2, 175, 18, 10, 0, 0, 1, 0, 0, 0, 0, 0, 0, 0, 0>>),        \* 0x8000 socket address info, O->T
    RawItem(32769, <<0, 2, 8, 174, 239, 192, 1, 2, 0, 0, 0, 0, 0, 0, 0, 0>>),      \* 0x8001 socket address info, T->O
    RawItem(134, <<1>>), RawItem(134, <<>>) }
CPFDomain == { <<>> } \cup { <<a>> : a \in CPFItems } \cup { <<a, c>> : a \in CPFItems, c \in CPFItems }
              \cup { <<a, c, d>> : a \in { x \in CPFItems : x.kind \in {"null", "connaddr"} }, c \in { x \in CPFItems : x.kind \in {"ucdata", "conndata"} },
                                  d \in { x \in CPFItems : x.kind = "raw" } }
EmitCPF(items) == PrintT(ToJson([k |-> "cpf", items |-> items, b |-> EncCPF([ i \in 1 .. Len(items) |-> items[i].b ])]))

ASSUME CASE Which = "epath"  -> \A p \in Paths : EmitEPath(p)
         [] Which = "status" -> \A x \in StatusDomain : EmitStatus(x)
         [] Which = "typed"  -> (\A x \in TypedDomain : EmitTyped(x)) /\ (\A x \in StructDomain : EmitStruct(x))
         [] Which = "logix"  -> (\A r \in WReqs : EmitLogix(r)) /\ (\A ms \in Bundles : EmitBundleW(ms))
         [] Which = "ucsend" -> \A x \in UCDomain : EmitUC(x)
         [] Which = "frames" -> \A f \in FrameDomain \cup ListFrames \cup BigFrames : EmitFrame(f)
         [] Which = "cpf" -> \A x \in CPFDomain : EmitCPF(x)
         [] Which = "fwd" -> \A f \in (IF Deep THEN FODomain ELSE FOSmall) : EmitFO(f)

VARIABLE dummy
WInit == dummy = 0
WNext == FALSE /\ UNCHANGED dummy
=============================================================================
