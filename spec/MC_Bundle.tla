------------------------------ MODULE MC_Bundle -----------------------------
(* C07: emission of every bundle of 1..MaxMembers members over MC_Logix!CoreReqs, each with the octets of the   *)
(* bundle request and of its members (spec encoder) -- and the offset-table law checked on each.               *)
EXTENDS MC_Logix
CONSTANTS MaxMembers
ASSUME \A ms \in BundleSet(MaxMembers) : EmitBundle(ms)
=============================================================================
