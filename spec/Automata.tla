------------------------------ MODULE Automata ------------------------------
(***************************************************************************)
(* Big-step semantics of cpppo's state-machine framework (automata.py):      *)
(* states that accept / process one symbol, no-input states, dfa states that *)
(* run a sub-machine for `repeat' cycles, symbol limits (`ending'), greedy   *)
(* and terminal stopping rules.  Properties C10 (limits, accounting,         *)
(* repeat counts); basis for C02 / C08 reasoning about framing.              *)
(*                                                                         *)
(* A machine M maps a state name to                                         *)
(*   [kind |-> "null" | "input" | "drop" | "dfa",                            *)
(*    term, greedy |-> BOOLEAN, alpha |-> symbols an input state accepts,     *)
(*    edges |-> << <<symbol | ANY | NON, target | NONE>>, ... >>,             *)
(*    limit, repeat |-> <<"none">> | <<"int", n>> | <<"field", f>>,           *)
(*    init |-> first state of a dfa's sub-machine, store |-> field | ""]      *)
(* Input is a sequence of symbols (naturals); the whole input is available   *)
(* (end of input reached), which is how the harness drives the real code.    *)
(* Results: [k |-> "ok" | "fail", pos |-> symbols consumed, data, runs, ...] *)
(***************************************************************************)
EXTENDS Naturals, Integers, Sequences, FiniteSets, TLC

NONE  == "NONE"
NOSYM == 0 - 1
ANY   == 0 - 2
NON   == 0 - 3
INF   == 100000
MinA(a, b) == IF a < b THEN a ELSE b

\* edge lookup: exact symbol, then ANY, then NON (a missing symbol can only take NON) -> <<found, target>>
Lookup(edges, sym) ==
  LET exact == { i \in 1 .. Len(edges) : sym # NOSYM /\ edges[i][1] = sym }
      any   == { i \in 1 .. Len(edges) : sym # NOSYM /\ edges[i][1] = ANY }
      non   == { i \in 1 .. Len(edges) : edges[i][1] = NON }
      first(S) == edges[CHOOSE i \in S : \A j \in S : i <= j][2]
  IN IF exact # {} THEN <<TRUE, first(exact)>> ELSE IF any # {} THEN <<TRUE, first(any)>>
     ELSE IF non # {} THEN <<TRUE, first(non)>> ELSE <<FALSE, NONE>>

Val(spec, data) == IF spec[1] = "none" THEN INF ELSE IF spec[1] = "int" THEN spec[2]
                   ELSE IF spec[2] \in DOMAIN data THEN data[spec[2]] ELSE 0

\* result record: x = [tgt, t] for a state run (transition target, terminal flag), runs = sub-machine cycles completed
R(k, pos, data, x, runs) == [k |-> k, pos |-> pos, data |-> data, x |-> x, runs |-> runs]

CONSTANT M      \* the machine graph under evaluation

\* the state's own transition after it (and its sub-machine) finished at pos
Trans(s, inp, pos, ending, data, term, check, runs) ==
  LET st == M[s]
      limited == pos >= ending
      sym == IF limited \/ pos >= Len(inp) THEN NOSYM ELSE inp[pos + 1]
      lk  == Lookup(st.edges, sym)
  IN IF pos > check THEN R("fail", pos, data, "exceeded-limit", runs)                  \* assert sent <= ending
     ELSE IF term /\ ~st.greedy THEN R("ok", pos, data, [tgt |-> NONE, t |-> term], runs)
     ELSE IF lk[1] THEN R("ok", pos, data, [tgt |-> lk[2], t |-> term], runs)
     ELSE R("ok", pos, data, [tgt |-> NONE, t |-> term], runs)

RECURSIVE RunState(_, _, _, _, _, _), RunChain(_, _, _, _, _, _), Cycles(_, _, _, _, _, _, _, _)

\* one state entered at pos with the enclosing limit `ending'
RunState(s, inp, pos, ending, data, fuel) ==
  LET st == M[s] IN
  IF fuel = 0 THEN R("fail", pos, data, "fuel", 0) ELSE
  IF st.kind \in {"input", "drop"} /\ (pos >= Len(inp) \/ inp[pos + 1] \notin st.alpha)
  THEN R("fail", pos, data, "no-acceptable-symbol", 0)                                 \* "no progress before acceptable symbol"
  ELSE
   LET pos1  == IF st.kind \in {"input", "drop"} THEN pos + 1 ELSE pos
       data1 == IF st.kind = "input" /\ st.store # ""
                THEN [ f \in DOMAIN data \cup {st.store} |-> IF f = st.store THEN inp[pos + 1] ELSE data[f] ] ELSE data
       lim   == Val(st.limit, data1)
       end1  == IF lim = INF THEN ending ELSE MinA(ending, pos1 + lim)                 \* a limit can only tighten
   IN
   IF st.kind = "dfa" THEN
      LET reps == IF st.repeat[1] = "none" THEN 1 ELSE Val(st.repeat, data1)
          sub  == Cycles(s, inp, pos1, end1, data1, reps, 0, fuel - 1)
      IN IF sub.k # "ok" THEN sub
         ELSE Trans(s, inp, sub.pos, end1, sub.data, st.term /\ sub.x, end1, sub.runs)
   ELSE Trans(s, inp, pos1, end1, data1, st.term, end1, 0)

\* `reps' cycles of the sub-machine of dfa s; x = terminal flag of the last sub-state (TRUE for zero cycles: the
\* dfa is then terminal iff its own flag says so -- its current state is the untouched initial one: see below)
Cycles(s, inp, pos, ending, data, reps, done, fuel) ==
  IF reps = 0 THEN R("ok", pos, data, M[M[s].init].term, done)
  ELSE LET one == RunChain(M[s].init, inp, pos, ending, data, fuel)
       IN IF one.k # "ok" THEN [one EXCEPT !.runs = done]
          ELSE IF ~one.x THEN R("fail", one.pos, one.data, "NonTerminal", done)
          ELSE IF reps = 1 THEN R("ok", one.pos, one.data, one.x, done + 1)
          ELSE Cycles(s, inp, one.pos, ending, one.data, reps - 1, done + 1, fuel - 1)

\* states from `cur' until one yields no transition; x = terminal flag of the last state
RunChain(cur, inp, pos, ending, data, fuel) ==
  LET r == RunState(cur, inp, pos, ending, data, fuel) IN
  IF r.k # "ok" THEN r
  ELSE IF r.x.tgt = NONE THEN R("ok", r.pos, r.data, r.x.t, r.runs)
  ELSE RunChain(r.x.tgt, inp, r.pos, ending, r.data, fuel - 1)

\* the top state run on the whole input: consumed symbols, terminal?, or failure
Outcome(top, inp) ==
  LET r == RunState(top, inp, 0, INF, <<>>, 60) IN
  IF r.k = "ok" THEN [k |-> "done", pos |-> r.pos, term |-> r.x.t, runs |-> r.runs, why |-> ""]
  ELSE [k |-> "fail", pos |-> r.pos, term |-> FALSE, runs |-> r.runs, why |-> r.x]

\* ---- C10 on the specification: a successful completion under a limit never consumed more than the limit
LimitRespected(top, inp, limit) == LET o == Outcome(top, inp) IN (o.k = "done" /\ o.term) => o.pos <= limit
=============================================================================
