------------------------------- MODULE Server -------------------------------
(***************************************************************************)
(* One TCP connection of the EtherNet/IP simulator as a state machine over   *)
(* ServerOps (frames on the wire, route filter, allowed replies): receive     *)
(* loop, framing, request pipeline, replies, close (C02, C06, C15, C08).      *)
(***************************************************************************)
EXTENDS ServerOps

----------------------------------------------------------------------------
(* The connection state machine *)
VARIABLES delivered,   \* octets of the client stream received so far
          eof,         \* end of stream seen
          next,        \* index of the next frame to be processed
          pend,        \* 0, or the index of the frame whose reply is awaited
          closing,     \* the server must close now (error status sent, Unregister, unsupported command)
          closed,
          smem,        \* device memory
          sent,        \* number of replies sent
          conns        \* connection serials opened by Forward Open on this session and not closed
svars == <<delivered, eof, next, pend, closing, closed, smem, sent, conns>>

SInit(SC) == /\ delivered = 0 /\ eof = FALSE /\ next = 1 /\ pend = 0 /\ closing = FALSE /\ closed = FALSE
             /\ smem = SC.mem0 /\ sent = 0 /\ conns = {}

Recv(SC, n) == /\ ~eof /\ ~closed /\ n >= 1 /\ delivered + n <= Len(Stream(SC))
               /\ delivered' = delivered + n
               /\ UNCHANGED <<eof, next, pend, closing, closed, smem, sent, conns>>
Poll == ~closed /\ UNCHANGED svars
Eof  == ~closed /\ eof' = TRUE /\ UNCHANGED <<delivered, next, pend, closing, closed, smem, sent, conns>>

\* C02: a request is acted upon iff its final octet has been delivered
Complete(SC, i) == i <= Len(SC.frames) /\ delivered >= EndOf(SC, i)
Proc(SC) == /\ ~closed /\ ~closing /\ pend = 0 /\ Complete(SC, next)
            /\ IF Silent(SC.frames[next]) THEN pend' = 0 /\ closing' = TRUE ELSE pend' = next /\ closing' = FALSE
            /\ next' = next + 1
            \* DEVIATION(code): a request that fails inside request processing (an unsupported command) makes the server run its
            \* end-of-session clean-up at once: the Connection Manager forgets the session's connections
            /\ conns' = IF SC.frames[next].kind = "badcmd" THEN {} ELSE conns
            /\ UNCHANGED <<delivered, eof, closed, smem, sent>>

\* The connection table: entries [serial, id] -- the connection serial and the O->T connection id the reply granted.
\* A Forward Open whose O->T id is the originator's (not point-to-point) and equals that of an open connection re-opens it.
Reopen(f) == f.fo.ot.type # 2 /\ \E c \in conns : c.id = f.fo.ot.id
ConnAfter(f, b) ==
  CASE ConnEffect(f) = "open"  -> conns \cup { [serial |-> f.fo.serial, id |-> SubSeq(CipIn(b), 5, 8)] }
    [] ConnEffect(f) = "close" -> { c \in conns : c.serial # f.fo.serial }
    [] OTHER -> conns
Send(SC, b) == /\ ~closed /\ pend # 0
               /\ LET f == SC.frames[pend] IN
                  \/ \E o \in ReplyOutcomes(SC, smem, f, b) : smem' = o.mem /\ closing' = o.close /\ conns' = ConnAfter(f, b)
                  \* DEVIATION(code, Connection_Manager.forward_open): re-opening an open connection with identical parameters is
                  \* meant to succeed (allowed above) but is refused with status 0x08 (dotdict has no .getattr); nothing changes
                  \/ /\ f.kind = "fwdopen" /\ Reopen(f) /\ b = RRReply(f, EncForwardOpenFail(f.fo, 8, <<>>))
                     /\ closing' = FALSE /\ UNCHANGED <<smem, conns>>
               /\ pend' = 0 /\ sent' = sent + 1
               /\ UNCHANGED <<delivered, eof, next, closed>>

\* The server closes when told to (closing), or at end of stream once no complete request is left unanswered.
\* (An unsupported / unparsable request may also be dropped with a bare close: C08 "replies or closes".)
Close(SC) == /\ ~closed
             /\ \/ closing
                \/ eof /\ pend = 0 /\ ~Complete(SC, next)
             /\ closed' = TRUE
             \* DEVIATION(code, main.enip_srv_tcp): only a session that the client ends at a frame boundary is cleaned up (the
             \* Connection Manager then forgets the connections it opened).  A session the server ends itself (error status,
             \* Unregister) or that ends inside a frame leaves its Forward Open entries in the table.
             /\ conns' = IF ~closing /\ delivered = EndOf(SC, next - 1) THEN {} ELSE conns
             /\ UNCHANGED <<delivered, eof, next, pend, closing, smem, sent>>
=============================================================================
