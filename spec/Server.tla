------------------------------- MODULE Server -------------------------------
(***************************************************************************)
(* One TCP connection of the EtherNet/IP simulator as a state machine over   *)
(* ServerOps (frames on the wire, route filter, allowed replies): receive     *)
(* loop, framing, request pipeline, replies, close (C02, C06, C15, C08).      *)
(***************************************************************************)
EXTENDS ServerOps

----------------------------------------------------------------------------
(* The connection state machine *)
VARIABLES delivered,   \* octets of the client stream received so far
          eof,         \* end of stream seen
          next,        \* index of the next frame to be processed
          pend,        \* 0, or the index of the frame whose reply is awaited
          closing,     \* the server must close now (error status sent, Unregister, unsupported command)
          closed,
          smem,        \* device memory
          sent         \* number of replies sent
svars == <<delivered, eof, next, pend, closing, closed, smem, sent>>

SInit(SC) == /\ delivered = 0 /\ eof = FALSE /\ next = 1 /\ pend = 0 /\ closing = FALSE /\ closed = FALSE
             /\ smem = SC.mem0 /\ sent = 0

Recv(SC, n) == /\ ~eof /\ ~closed /\ n >= 1 /\ delivered + n <= Len(Stream(SC))
               /\ delivered' = delivered + n
               /\ UNCHANGED <<eof, next, pend, closing, closed, smem, sent>>
Poll == ~closed /\ UNCHANGED svars
Eof  == ~closed /\ eof' = TRUE /\ UNCHANGED <<delivered, next, pend, closing, closed, smem, sent>>

\* C02: a request is acted upon iff its final octet has been delivered
Complete(SC, i) == i <= Len(SC.frames) /\ delivered >= EndOf(SC, i)
Proc(SC) == /\ ~closed /\ ~closing /\ pend = 0 /\ Complete(SC, next)
            /\ IF Silent(SC.frames[next]) THEN pend' = 0 /\ closing' = TRUE ELSE pend' = next /\ closing' = FALSE
            /\ next' = next + 1
            /\ UNCHANGED <<delivered, eof, closed, smem, sent>>

Send(SC, b) == /\ ~closed /\ pend # 0
               /\ \E o \in ReplyOutcomes(SC, smem, SC.frames[pend], b) :
                     smem' = o.mem /\ closing' = o.close
               /\ pend' = 0 /\ sent' = sent + 1
               /\ UNCHANGED <<delivered, eof, next, closed>>

\* The server closes when told to (closing), or at end of stream once no complete request is left unanswered.
\* (An unsupported / unparsable request may also be dropped with a bare close: C08 "replies or closes".)
Close(SC) == /\ ~closed
             /\ \/ closing
                \/ eof /\ pend = 0 /\ ~Complete(SC, next)
             /\ closed' = TRUE
             /\ UNCHANGED <<delivered, eof, next, pend, closing, smem, sent>>
=============================================================================
