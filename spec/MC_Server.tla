------------------------------ MODULE MC_Server -----------------------------
(* Bounded instance of Server: one connection, streams of 1..MaxFrames frames drawn from a small frame set, all      *)
(* delivery schedules (Recv of any size, Eof at any point), all orders of Proc / Send the guards allow.             *)
(* Also emits the scenarios with their octet streams and the delivery schedules to replay on the real server.       *)
EXTENDS Server, Json

CONSTANTS MaxFrames, Pers,     \* Pers: "any" | "simple" | "p10" | "p23" | "p10_23" | "pa" | "p15" (configured route path)
          Frames               \* "all" | "routes" (C15: every route-path shape x service) | "pipeline" (C06)

SCfg == [ budget |-> 488,
          tags |-> << [name |-> <<65>>, type |-> "INT", len |-> 3, scalar |-> FALSE, cia |-> <<2, 1, 1>>],
                      [name |-> <<66, 66>>, type |-> "DINT", len |-> 1, scalar |-> TRUE, cia |-> <<2, 1, 2>>] >> ]
Route10 == << [k |-> "port", p |-> 1, l |-> 0] >>
Route23 == << [k |-> "port", p |-> 2, l |-> 3] >>
RouteA  == << [k |-> "porta", p |-> 2, a |-> <<49, 46, 50, 46, 51, 46, 52>>] >>        \* 2/1.2.3.4
Route10_23 == Route10 \o Route23
Route11 == << [k |-> "port", p |-> 1, l |-> 1] >>
Route20 == << [k |-> "port", p |-> 2, l |-> 0] >>
RouteX  == << [k |-> "port", p |-> 17, l |-> 0] >>                                      \* extended port number
Route15 == << [k |-> "port", p |-> 1, l |-> 5] >>
Route15A == << [k |-> "porta", p |-> 1, a |-> <<53>>] >>                                \* 1/"5": an address link spelling the digits of link 5
Route15B == << [k |-> "porta", p |-> 1, a |-> <<48, 53>>] >>                            \* 1/"05"
SPers == CASE Pers = "any" -> [k |-> "any"] [] Pers = "simple" -> [k |-> "simple"] [] Pers = "p10" -> [k |-> "path", segs |-> Route10]
           [] Pers = "p23" -> [k |-> "path", segs |-> Route23] [] Pers = "p10_23" -> [k |-> "path", segs |-> Route10_23]
           [] Pers = "pa" -> [k |-> "path", segs |-> RouteA] [] Pers = "p15" -> [k |-> "path", segs |-> Route15]

Rq(svc, tag, idx, n, typ, vals) == [svc |-> svc, tag |-> tag, mode |-> "sym", idx |-> idx, n |-> n, off |-> 0, typ |-> typ,
                                    vals |-> vals, bytes |-> <<>>, ms |-> <<>>]
NoReq == Rq("read", 1, 0, 1, "INT", <<>>)
F(kind, sess, ctx, wrap, route, req) == [kind |-> kind, sess |-> sess, ctx |-> ctx, wrap |-> wrap, route |-> route, tmo |-> 5, req |-> req]
S0 == <<0, 0, 0, 0>>   S1 == <<68, 51, 34, 17>>
C0 == <<0, 0, 0, 0, 0, 0, 0, 0>>   C1 == <<49, 50, 51, 52, 53, 54, 55, 255>>

WriteA  == Rq("write", 1, 1, 2, "INT", << <<5, 0>>, <<6, 0>> >>)
WriteB  == Rq("write", 2, 0 - 1, 1, "DINT", << <<1, 2, 3, 4>> >>)
ReadA   == Rq("read", 1, 0 - 1, 3, "INT", <<>>)
ReadBad == Rq("read", 1, 2, 2, "INT", <<>>)                        \* beyond the end: CIP error reply
ReadUnk == Rq("read", 0, 0 - 1, 1, "INT", <<>>)                    \* unknown tag: unroutable
WrongTy == Rq("write", 1, 0, 1, "DINT", << <<1, 0, 0, 0>> >>)
Bundle  == [svc |-> "multi", tag |-> 0, mode |-> "sym", idx |-> 0 - 1, n |-> 0, off |-> 0, typ |-> "INT", vals |-> <<>>,
            bytes |-> <<>>, ms |-> <<WriteA, ReadBad, ReadA>>]

GasA == [svc |-> "gas", tag |-> 1, mode |-> "cia", idx |-> 0 - 1, n |-> 0, off |-> 0, typ |-> "INT", vals |-> <<>>, bytes |-> <<>>, ms |-> <<>>]
\* C15: every route-path shape (absent, empty, equal, differing in port / link / length / link kind) x service
RouteFrames ==
  { F("rr", S1, C1, w[1], w[2], q) :
      w \in { <<"simple", <<>>>>, <<"ucsend", <<>>>>, <<"ucsend", Route10>>, <<"ucsend", Route23>>, <<"ucsend", Route11>>,
               <<"ucsend", Route20>>, <<"ucsend", Route10_23>>, <<"ucsend", RouteA>>, <<"ucsend", RouteX>>,
               <<"ucsend", Route15>>, <<"ucsend", Route15A>>, <<"ucsend", Route15B>> },
      q \in { WriteA, ReadA, GasA, Bundle } }
PipeFrames == { F("rr", S1, <<i, 0, 0, 0, 0, 0, 0, i>>, "ucsend", Route10, q) : i \in {1, 200}, q \in {WriteA, ReadA, ReadBad, WrongTy, Bundle, WriteB} }
AllFrames ==
  { F("register", S0, C1, "simple", <<>>, NoReq),
    F("listservices", S0, C0, "simple", <<>>, NoReq),
    F("listidentity", S1, C1, "simple", <<>>, NoReq),
    F("listinterfaces", S0, C1, "simple", <<>>, NoReq),
    F("rr", S1, C1, "ucsend", Route10, WriteA),
    F("rr", S1, C0, "simple", <<>>, WriteB),
    F("rr", S0, C1, "ucsend", <<>>, ReadA),
    F("rr", S1, C1, "simple", <<>>, ReadBad),
    F("rr", S1, C1, "ucsend", Route10, WrongTy),
    F("rr", S1, C1, "ucsend", Route10, Bundle),
    F("rr", S1, C0, "ucsend", Route23, WriteB),                    \* another route path (refused by "path"/"simple")
    F("rr", S1, C1, "simple", <<>>, ReadUnk),
    F("unregister", S1, C0, "simple", <<>>, NoReq),
    F("badcmd", S1, C1, "simple", <<>>, NoReq) }

\* connected messaging: Forward Open (small / large; target-chosen or originator-chosen O->T id), SendUnitData, Forward Close
Side(id, rpi, size, variable, priority, type, redundant) ==
  [id |-> id, rpi |-> rpi, size |-> size, variable |-> variable, priority |-> priority, type |-> type, redundant |-> redundant]
FO(otid, ottype, size, serial) ==
  [prio |-> 5, ticks |-> 157, ot |-> Side(otid, <<64, 66, 15, 0>>, size, 1, 0, ottype, 0), to |-> Side(<<9, 8, 7, 6>>, <<32, 161, 7, 0>>, size, 1, 0, 2, 0),
   serial |-> serial, vendor |-> 4919, oserial |-> <<120, 86, 52, 18>>, mult |-> 1, trigger |-> 163,
   cpath |-> << [k |-> "port", p |-> 1, l |-> 0], [k |-> "class", v |-> 2], [k |-> "inst", v |-> 1] >>]
FC(kind, fo) == [kind |-> kind, sess |-> S1, ctx |-> C1, wrap |-> "simple", route |-> <<>>, tmo |-> 5, req |-> NoReq, fo |-> fo]
FU(cid, seq, q) == [kind |-> "unit", sess |-> S1, ctx |-> <<seq % 256, 0, 0, 0, 0, 0, 0, 7>>, wrap |-> "simple", route |-> <<>>, tmo |-> 0, req |-> q, cid |-> cid, seq |-> seq]
Cid1 == <<17, 0, 0, 1>>   Cid2 == <<34, 0, 0, 2>>   Cid3 == <<51, 0, 0, 3>>
ConnFrames ==
  { FC("fwdopen", FO(Cid1, 2, 500, 1)), FC("fwdopen", FO(Cid2, 1, 4000, 2)), FC("fwdclose", FO(Cid1, 2, 500, 1)), FC("fwdclose", FO(Cid2, 1, 4000, 2)),
    FC("fwdopen", FO(Cid3, 3, 100, 0)), FC("fwdclose", FO(Cid3, 3, 100, 0)),                    \* connection serial 0 is a serial like any other
    F("register", S0, C1, "simple", <<>>, NoReq) }
  \cup { FU(c, sq, q) : c \in {Cid1, Cid2}, sq \in {1, 65535}, q \in {WriteA, ReadA, ReadBad, Bundle} }
\* request routing to a second device: the first route path segment 1/2 is mapped to a remote simulator ([UCMM] Route);
\* "hostile" variants carry an Unconnected Send time-out of 10 ms
Route12 == << [k |-> "port", p |-> 1, l |-> 2] >>
ReadA1 == Rq("read", 1, 1, 2, "INT", <<>>)
ReadB  == Rq("read", 2, 0 - 1, 1, "DINT", <<>>)
RoutingFrames ==
  { F("register", S0, C1, "simple", <<>>, NoReq) }
  \cup { F("rr", S1, <<i, 9, 9, 9, 9, 9, 9, i>>, "ucsend", rt, q) : i \in {1, 2}, rt \in {Route12, Route10}, q \in {ReadA, ReadA1, ReadB, WriteA, WriteB} }
  \cup { [F("rr", S1, <<7, 7, 7, 7, 7, 7, 7, 7>>, "ucsend", Route12, q) EXCEPT !.tmo = 5] @@ [uprio |-> 0, uticks |-> 10] : q \in {ReadA, ReadB} }
FrameSet == IF Frames = "routing" THEN RoutingFrames ELSE IF Frames = "routes" THEN RouteFrames ELSE IF Frames = "pipeline" THEN AllFrames \cup PipeFrames
            ELSE IF Frames = "connected" THEN ConnFrames ELSE AllFrames

Scenario(fs) == [cfg |-> SCfg, pers |-> SPers, mem0 |-> ZeroMemOf(SCfg), frames |-> fs]
\* Frames = "limited": the pipeline frames on a server with a request size limit at, and one below, the payload length of one of them
Limits(fs) == UNION { { PayloadLen(Scenario(fs), fs[i]), PayloadLen(Scenario(fs), fs[i]) - 1 } : i \in 1 .. Len(fs) }
Scenarios == IF Frames = "limited"
             THEN UNION { UNION { { Scenario(fs) @@ [limit |-> L] : L \in Limits(fs) } : fs \in [1 .. k -> PipeFrames \cup { F("register", S0, C1, "simple", <<>>, NoReq) }] } : k \in 1 .. MaxFrames }
             ELSE UNION { { Scenario(fs) : fs \in [1 .. k -> FrameSet] } : k \in 1 .. MaxFrames }

\* ---- model: one scenario, every schedule
VARIABLE sc
mvars == <<svars, sc>>

Replies(f) == RepliesOf(sc, smem, f)

MInit == sc \in Scenarios /\ SInit(sc)
MNext == /\ UNCHANGED sc
         /\ \/ \E n \in 1 .. (Len(Stream(sc)) - delivered) : Recv(sc, n)
            \/ Eof \/ Proc(sc) \/ Close(sc)
            \/ (pend # 0 /\ \E b \in Replies(sc.frames[pend]) : Send(sc, b))
MSpec == MInit /\ [][MNext]_mvars

\* C02: a frame is processed only when complete; nothing of a later frame is needed
ProcOnlyComplete == \A i \in 1 .. (next - 1) : delivered >= EndOf(sc, i)
\* C06: at most one reply per processed frame, never a reply for an unprocessed one
OneReplyEach == sent <= next - 1 /\ (pend # 0 => sent <= next - 2)
\* C02: a connection that ends inside a frame has acted on the complete frames only
PartialNoEffect == (closed /\ next = 1) => smem = sc.mem0
\* a Silent or error-closed connection processes nothing further
ClosedStays == [][ closed => UNCHANGED <<next, pend, smem, sent>> ]_mvars

\* ---- C15: textual route paths denote the segments they spell ('port/link', chained, JSON list, address links)
Chr(c) == CASE c = 46 -> "." [] c = 48 -> "0" [] c = 49 -> "1" [] c = 50 -> "2" [] c = 51 -> "3" [] c = 52 -> "4" [] c = 53 -> "5"
            [] c = 54 -> "6" [] c = 55 -> "7" [] c = 56 -> "8" [] c = 57 -> "9"
RECURSIVE Str(_)
Str(cs) == IF cs = <<>> THEN "" ELSE Chr(cs[1]) \o Str(Tail(cs))
LinkText(g) == IF g.k = "port" THEN ToString(g.l) ELSE Str(g.a)
RECURSIVE Slashed(_)
Slashed(segs) == ToString(segs[1].p) \o "/" \o LinkText(segs[1]) \o (IF Len(segs) = 1 THEN "" ELSE "/" \o Slashed(Tail(segs)))
JsonSeg(g) == "{\"port\": " \o ToString(g.p) \o ", \"link\": " \o (IF g.k = "port" THEN ToString(g.l) ELSE "\"" \o Str(g.a) \o "\"") \o "}"
\* the same with the numbers spelled as JSON strings ("port": "1"): still the segment port 1
JsonSegQ(g) == "{\"port\": \"" \o ToString(g.p) \o "\", \"link\": \"" \o (IF g.k = "port" THEN ToString(g.l) ELSE Str(g.a)) \o "\"}"
RECURSIVE JsonSegsQ(_)
JsonSegsQ(segs) == JsonSegQ(segs[1]) \o (IF Len(segs) = 1 THEN "" ELSE ", " \o JsonSegsQ(Tail(segs)))
RECURSIVE JsonSegs(_)
JsonSegs(segs) == JsonSeg(segs[1]) \o (IF Len(segs) = 1 THEN "" ELSE ", " \o JsonSegs(Tail(segs)))
RECURSIVE JsonStrs(_)
JsonStrs(segs) == "\"" \o Slashed(<<segs[1]>>) \o "\"" \o (IF Len(segs) = 1 THEN "" ELSE ", " \o JsonStrs(Tail(segs)))
RouteTexts(segs) == { Slashed(segs), "[" \o JsonSegs(segs) \o "]", "[" \o JsonStrs(segs) \o "]", "[" \o JsonSegsQ(segs) \o "]" }
                    \cup (IF Len(segs) = 1 THEN { JsonSeg(segs[1]) } ELSE {})
RouteShapes == { Route10, Route23, Route11, Route20, RouteX, RouteA, Route10_23, RouteA \o Route10, Route23 \o RouteA \o RouteX }
EmitRouteTexts == \A segs \in RouteShapes : \A tx \in RouteTexts(segs) : PrintT(ToJson([k |-> "rtext", segs |-> segs, text |-> tx]))

\* ---- emission: every scenario with its frame octets, and the delivery schedules
Sched(SC) ==
  LET L == Len(Stream(SC)) IN
  [whole |-> <<L>>, twoway |-> [ k \in 1 .. (L - 1) |-> <<k, L - k>> ], cuts |-> [ k \in 0 .. (L - 1) |-> k ],
   ends |-> [ i \in 1 .. Len(SC.frames) |-> EndOf(SC, i) ]]
EmitScenario(SC) == PrintT(ToJson([k |-> "scenario", sc |-> SC,
                                   fb |-> [ i \in 1 .. Len(SC.frames) |-> FrameBytes(SC.cfg, SC.frames[i]) ],
                                   ends |-> [ i \in 1 .. Len(SC.frames) |-> EndOf(SC, i) ]]))
EmitInit == MInit /\ EmitScenario(sc)
ASSUME Frames # "routes" \/ EmitRouteTexts
EmitNext == FALSE /\ UNCHANGED mvars
=============================================================================
