------------------------------- MODULE Logix --------------------------------
(***************************************************************************)
(* The Logix simulator as a state machine over LogixOps (which holds the     *)
(* semantics of every service as the set of outcomes the statements allow):  *)
(* any request of a finite catalogue at any time.  Properties C03 / C05.     *)
(***************************************************************************)
EXTENDS LogixOps

----------------------------------------------------------------------------
(* The state machine: any request at any time.                              *)
CONSTANTS Cfg,          \* the configuration of this model instance
          Reqs,         \* the finite set of requests explored
          InitVals,     \* initial element value choice: "zero" or "any"
          MaxDepth
VARIABLES mem, op, depth
vars == <<mem, op, depth>>

ZeroVal(t) == IF Size(t) = 0 THEN <<>> ELSE Zeros(Size(t))
ZeroMem(C) == [ t \in 1 .. Len(C.tags) |-> [ i \in 1 .. C.tags[t].len |-> ZeroVal(C.tags[t].type) ] ]

Init == mem = ZeroMem(Cfg) /\ op = [req |-> "none"] /\ depth = 0

Do(r) == \E o \in SingleOuts(Cfg, mem, r) :
            /\ mem' = o.mem
            /\ op' = [req |-> r, out |-> o]

Next == depth < MaxDepth /\ depth' = depth + 1 /\ \E r \in Reqs : Do(r)

Spec == Init /\ [][Next]_vars

\* ---- properties checked on the specification itself
TypeOK == \A t \in 1 .. Len(Cfg.tags) :
             /\ Len(mem[t]) = Cfg.tags[t].len
             /\ \A i \in 1 .. Len(mem[t]) :
                   LET ty == Cfg.tags[t].type IN
                   IF Size(ty) = 0 THEN TRUE ELSE Len(mem[t][i]) = Size(ty) /\ Canon(ty, mem[t][i]) = mem[t][i]

\* C03/C05 frame: only a successful write touches memory, and only the addressed elements of the addressed tag
Addressed(r, t, i) ==
  /\ r.tag = t
  /\ LET sz == Size(Cfg.tags[t].type)
         first == IF r.svc = "writef" /\ sz # 0 THEN Idx0(r) + r.off \div sz ELSE Idx0(r)
     IN IF r.svc = "sas" THEN TRUE ELSE i > first /\ i <= first + Len(r.vals)
\* DEVIATION(code): a write to a tag configured with a forced error code is carried out and THEN answered with that code
ForcedWrite(r, o) == r.tag # 0 /\ r.svc \in {"write", "writef"} /\ Forced(Cfg, r.tag) # 0 /\ o.k = "err" /\ o.st = Forced(Cfg, r.tag) /\ o.ext = <<>>
FrameOK == [][ \A t \in 1 .. Len(Cfg.tags) : \A i \in 1 .. Cfg.tags[t].len :
                 mem'[t][i] # mem[t][i] =>
                    /\ op'.req.svc \in {"write", "writef", "sas"} /\ (op'.out.k = "ok" \/ ForcedWrite(op'.req, op'.out))
                    /\ Addressed(op'.req, t, i) ]_vars
\* C05: a refused request changes nothing
RefusedNoChange == [][ (op'.out.k \in {"err", "anyfail"} /\ ~ForcedWrite(op'.req, op'.out)) => mem' = mem ]_vars
\* C03 read-your-writes: a successful read returns exactly what memory holds
ReadsMemory == [][ (op'.req.svc \in {"read", "readf"} /\ op'.out.k = "ok" /\ Len(op'.out.data) > 0) =>
                     \E f \in 0 .. (Cfg.tags[op'.req.tag].len - 1) :
                        op'.out.data = SubSeq(mem[op'.req.tag], f + 1, f + Len(op'.out.data)) ]_vars
\* C05: after any history every tag can be read in full (there is a success outcome and no failure outcome)
Readable == \A t \in 1 .. Len(Cfg.tags) :
              LET r == [svc |-> "readf", tag |-> t, mode |-> "sym", idx |-> 0, n |-> Cfg.tags[t].len, off |-> 0,
                        typ |-> Cfg.tags[t].type, vals |-> <<>>, bytes |-> <<>>, ms |-> <<>>]
              IN \A o \in ReadOuts(Cfg, mem, r) : o.k = "ok"
=============================================================================
