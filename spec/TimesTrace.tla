------------------------------ MODULE TimesTrace ----------------------------
(* C17 on recorded behaviour of the real timestamp class around real daylight-saving transitions.                      *)
(* One NDJSON line per probe: {"zone": name, "at": T, "off0": seconds, "off1": seconds, "u": instant (integer seconds),   *)
(*                             "frac": milliseconds, "res": "same" | "reject" | "other", "got": parsed instant (ms)}        *)
(* (transition table read by the harness from the installed tz database; offsets before / after the transition at T)   *)
EXTENDS Times, Json, IOUtils
Traces == ndJsonDeserialize(IOEnv.TRACE_FILE)
VARIABLE t
TInit == t \in 1 .. Len(Traces)
TNext == FALSE /\ UNCHANGED t
X == Traces[t]
Z == [at |-> X.at, off0 |-> X.off0, off1 |-> X.off1]
Expect == ParseOf(Z, X.u)
\* rendered and parsed back: the same instant to the millisecond, or -- exactly when the wall-clock time is ambiguous -- rejected
Why == IF Expect.ok THEN (IF X.res = "same" THEN "ok" ELSE IF X.res = "reject" THEN "unambiguous-time-rejected" ELSE "parsed-to-a-different-instant")
       ELSE (IF X.res = "reject" THEN "ok" ELSE IF X.res = "same" THEN "ok" ELSE "ambiguous-time-mapped-to-a-different-instant")
Verdict == Why = "ok" \/ PrintT(ToJson([tid |-> t, why |-> Why]))
=============================================================================
