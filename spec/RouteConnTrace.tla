--------------------------- MODULE RouteConnTrace ---------------------------
(* Event logs of the shared route connection recorded from the real code (C09, exec_routed_sched): one NDJSON line per run,        *)
(*   {"ev": [{"s": session, "e": "acq" | "send" | "rcv" | "rcvreg" | "rel", "of": session whose request the reply read answers (rcv)}, ...]}  *)
(* "acq" is logged after the connection was taken, "rel" before it is given up, "send" before the request is forwarded, "rcv"     *)
(* after the reply was read: the logged order is an order of the real steps.  Each event must be the RouteConn action of that     *)
(* name, enabled in the state reached so far, and OwnReply must hold in every state.  The trace spec runs with Discipline = "any": *)
(* a request forwarded without exclusive use of the connection is followed too (and NOTED: the model shows that discipline admits  *)
(* a wrong reply in some schedule), but only a reply that answers another session's request -- the property itself -- or a log     *)
(* that is no behaviour of either discipline is a violation.                                                                      *)
EXTENDS RouteConn, Json, IOUtils, TLCExt, TLC
Traces == ndJsonDeserialize(IOEnv.TRACE_FILE)
VARIABLES t, l
tvars == <<t, l, holder, pc, n, wire, got>>
Ev == Traces[t].ev
TInit == t \in 1 .. Len(Traces) /\ l = 1 /\ CInit
TStep == /\ l <= Len(Ev) /\ l' = l + 1 /\ UNCHANGED t
         /\ LET e == Ev[l] IN
            IF e.e = "acq" THEN Acquire(e.s)
            ELSE IF e.e = "send" THEN Send(e.s) /\ (holder = e.s \/ PrintT(ToJson([tid |-> t, at |-> l, note |-> "request-forwarded-without-exclusive-use-of-the-route-connection"])))
            ELSE IF e.e = "rcv" THEN Answer(e.s) /\ Head(wire)[1] = e.of
            ELSE IF e.e = "rcvreg" THEN holder = e.s /\ pc[e.s] = "held" /\ wire = <<>> /\ UNCHANGED cvars   \* the Register Session reply (connector creation)
            ELSE IF pc[e.s] = "wait" THEN ReleaseWaiting(e.s) /\ PrintT(ToJson([tid |-> t, at |-> l, note |-> "route-connection-given-up-between-forwarding-and-reading-the-reply"]))
            ELSE Release(e.s) \/ Establish(e.s)
TSpec == TInit /\ [][TStep]_tvars
Why == IF Ev[l].e = "send" THEN "request-forwarded-without-exclusive-use-of-the-route-connection"
       ELSE IF Ev[l].e = "rcv" THEN "reply-read-is-not-the-oldest-forwarded-request's"
       ELSE IF Ev[l].e = "rcvreg" THEN "route-connection-registered-while-requests-are-on-the-wire"
       ELSE IF Ev[l].e = "acq" THEN "route-connection-taken-while-in-use" ELSE "route-connection-released-out-of-turn"
Verdict == (l <= Len(Ev) /\ ~ENABLED TStep) => PrintT(ToJson([tid |-> t, at |-> l, why |-> Why]))
Own == IF OwnReply THEN TRUE ELSE PrintT(ToJson([tid |-> t, at |-> l - 1, why |-> "session-read-the-reply-to-another-session's-request"]))
=============================================================================
