----------------------------- MODULE ClientTrace ----------------------------
(* Validation of what an application observed from the real client against Client (C12, C13, C14).                     *)
(* One NDJSON line per run: {"cfg", "mem0", "ops": [requests], "frag": b, "obs": [{"st","ext","vals","ok"}],            *)
(*   "fault": b, "delivered": operations whose replies were completely delivered, "raised": an error ended the results, *)
(*   "mixed": a bundle mixed operations with different route / send paths, "final": memory afterwards ([] = not recorded)}  *)
EXTENDS Client, Json, IOUtils
Traces == ndJsonDeserialize(IOEnv.TRACE_FILE)
VARIABLE t
TInit == t \in 1 .. Len(Traces)
TNext == FALSE /\ UNCHANGED t
X == Traces[t]
Why == IF X.mixed THEN "bundle-mixes-route-or-send-paths"
       ELSE IF ~X.fault THEN
            (IF Len(X.obs) # Len(X.ops) THEN "not-one-result-per-operation"
             ELSE IF ~Explains(X.cfg, X.mem0, X.ops, X.obs, X.frag) THEN "results-differ-from-sequential" ELSE "ok")
       ELSE (IF ~Explains(X.cfg, X.mem0, X.ops, X.obs, X.frag) THEN "wrong-result-under-fault"
             ELSE IF Len(X.obs) > X.delivered THEN "result-without-complete-reply"
             ELSE IF Len(X.obs) < Len(X.ops) /\ ~X.raised THEN "silently-short" ELSE "ok")
Verdict == Why = "ok" \/ PrintT(ToJson([tid |-> t, why |-> Why]))
=============================================================================
