------------------------------- MODULE PollRun ------------------------------
(***************************************************************************)
(* The polling driver (cpppo/server/enip/poll.py: run / loop) as a state      *)
(* machine -- the retry side of property C13: after a failed poll the driver   *)
(* reports the failure, waits (exponential back-off between its minimum and    *)
(* maximum), tries again, and after the first successful poll is back on the   *)
(* original poll cadence with the back-off forgotten.                          *)
(* Time in units of 1/32 s (every value of the default back-off sequence       *)
(* 1, 1.5, 2.25, ... 10 s is a whole number of them); a poll itself takes no    *)
(* time.  `Pattern' says which attempts fail.                                   *)
(***************************************************************************)
EXTENDS Naturals, Sequences, TLC, Json
CONSTANTS Cycle, BMin, BMax, Patterns
VARIABLES pat, k, now, lst, dly, backoff, at, fails
vars == <<pat, k, now, lst, dly, backoff, at, fails>>
Next15(b) == IF b * 3 >= BMax * 2 THEN BMax ELSE (b * 3) \div 2          \* times 1.5, capped
Init == /\ pat \in Patterns /\ k = 1 /\ now = 1000 /\ lst = 0 /\ dly = 0 /\ backoff = 0 /\ at = <<>> /\ fails = 0
\* the k-th attempt happens when the delay has passed
Attempt == /\ k <= Len(pat)
           /\ LET t == now + dly IN
              /\ now' = t /\ at' = Append(at, t) /\ k' = k + 1
              /\ IF pat[k]
                 THEN \* a successful poll: stay on the cadence of the first poll (missed cycles are skipped), forget the back-off
                      LET l2 == IF lst = 0 THEN t ELSE IF t - lst >= Cycle THEN lst + Cycle * ((t - lst) \div Cycle) ELSE lst IN
                      /\ lst' = l2 /\ dly' = (IF l2 + Cycle > t THEN l2 + Cycle - t ELSE 0) /\ backoff' = 0 /\ UNCHANGED fails
                 ELSE /\ backoff' = (IF backoff = 0 THEN BMin ELSE Next15(backoff)) /\ dly' = backoff' /\ fails' = fails + 1 /\ UNCHANGED lst
           /\ UNCHANGED pat
Spec == Init /\ [][Attempt]_vars
\* ---- what a user of the driver relies on
BackoffBounds == backoff = 0 \/ (backoff >= BMin /\ backoff <= BMax)
NeverBusy == k > 1 => dly > 0 \/ (pat[k - 1] /\ lst + Cycle <= now)           \* never retries at once after a failure
Cadence == lst # 0 => (lst - at[CHOOSE i \in 1 .. Len(at) : pat[i] /\ \A j \in 1 .. (i - 1) : ~pat[j]]) % Cycle = 0
GrowsThenResets == [][ (~pat[k] /\ backoff # 0 => backoff' >= backoff) /\ (pat[k] => backoff' = 0) ]_vars
Emit == k = Len(pat) + 1 => PrintT(ToJson([k |-> "poll", pat |-> pat, at |-> [ i \in 1 .. Len(at) |-> at[i] - 1000 ], fails |-> fails]))
=============================================================================
