-------------------------- MODULE ConcurrencyTrace --------------------------
(* Linearizability of recorded histories of the real multi-threaded request pipeline (C09).                            *)
(* One NDJSON line per history:                                                                                      *)
(*   {"cfg": C, "mem0": memory, "ops": [{"s": session, "r": request, "rpy": reply octets}, ...],                      *)
(*    "ev": [{"e": "inv" | "resp", "id": index into ops}, ...]  in real-time order, "final": memory at the end,        *)
(*    "ftab": the connections open at the end, as [session, connection serial] pairs}                                    *)
(* A request may be a Forward Open / Forward Close (r.svc "fwdopen" / "fwdclose", r.fo its parameters): its one effect   *)
(* opens / closes the connection <<session, serial>>; its reply must be the success reply for those parameters.          *)
(* The history is accepted iff some interleaving of atomic (member) effects, each placed between the invocation and     *)
(* the response of its request and in member order, explains every reply and the final memory.                         *)
EXTENDS ServerOps, Json, IOUtils, TLCExt

Traces == ndJsonDeserialize(IOEnv.TRACE_FILE)
Members(r) == IF r.svc = "multi" THEN r.ms ELSE <<r>>
VARIABLES t, l, mem, prog,     \* prog[id] = -1 not invoked, k >= 0 members taken effect, 1000 = responded
          ctab                \* open connections <<session, serial>>
tvars == <<t, l, mem, prog, ctab>>
IsConn(r) == r.svc \in {"fwdopen", "fwdclose", "end"}
T == Traces[t]
Ev == T.ev
TInit == t \in 1 .. Len(Traces) /\ l = 1 /\ mem = Traces[t].mem0 /\ prog = [ i \in 1 .. Len(Traces[t].ops) |-> 0 - 1 ] /\ ctab = {}

\* the reply octets of member k of operation id (located through the bundle's own offset table)
MemberReplies(op) == IF op.r.svc = "multi"
                     THEN (IF Len(op.rpy) >= 4 /\ SubSeq(op.rpy, 1, 4) = <<138, 0, 0, 0>> THEN DecMSPBody(SubSeq(op.rpy, 5, Len(op.rpy))) ELSE <<>>)
                     ELSE <<op.rpy>>
\* the success reply of a Forward Open (the target picks the O->T id of a point-to-point connection: any 4 octets) / Forward Close
ConnReplyOK(r, cip) ==
  IF r.svc = "end" THEN cip = <<>>                  \* (the session ended: no reply)
  ELSE IF r.svc = "fwdclose" THEN cip = EncForwardCloseReply(r.fo)
  ELSE LET fo2 == [r.fo EXCEPT !.ot.id = IF r.fo.ot.type = 2 /\ Len(cip) >= 12 THEN SubSeq(cip, 5, 8) ELSE @,
                               !.to.id = IF r.fo.to.type = 1 /\ Len(cip) >= 12 THEN SubSeq(cip, 9, 12) ELSE @] IN
       cip = EncForwardOpenReply(fo2, r.fo.ot.rpi, r.fo.to.rpi)
\* the event at position l happens
Step == /\ l <= Len(Ev) /\ l' = l + 1 /\ UNCHANGED <<t, mem, ctab>>
        /\ LET e == Ev[l] IN
           IF e.e = "inv" THEN prog[e.id] = 0 - 1 /\ prog' = [prog EXCEPT ![e.id] = 0]
           ELSE /\ prog[e.id] = Len(Members(T.ops[e.id].r))                    \* every member has taken effect
                /\ Len(MemberReplies(T.ops[e.id])) = Len(Members(T.ops[e.id].r))
                /\ prog' = [prog EXCEPT ![e.id] = 1000]
\* an invoked, not yet answered operation takes its next atomic effect (an internal step, not in the log)
Lin == /\ l <= Len(Ev) /\ UNCHANGED <<t, l>>
       /\ \E id \in 1 .. Len(T.ops) :
            LET op == T.ops[id]  ms == Members(op.r)  rs == MemberReplies(op)  k == prog[id] IN
            /\ k >= 0 /\ k < Len(ms) /\ Len(rs) = Len(ms)
            /\ IF IsConn(op.r)
               THEN /\ ConnReplyOK(op.r, op.rpy) /\ UNCHANGED mem
                    /\ ctab' = IF op.r.svc = "fwdopen" THEN ctab \cup { <<op.s, op.r.fo.serial>> }
                               ELSE IF op.r.svc = "end" THEN { c \in ctab : c[1] # op.s } ELSE ctab \ { <<op.s, op.r.fo.serial>> }
               ELSE /\ \E m2 \in After1(T.cfg, mem, ms[k + 1], rs[k + 1]) : mem' = m2
                    /\ UNCHANGED ctab
            /\ prog' = [prog EXCEPT ![id] = k + 1]
TNext == Step \/ Lin
TSpec == TInit /\ [][TNext]_tvars
\* bookkeeping of the furthest event reached per history (TLC registers), judged in the post-condition
FinalTab == { <<T.ftab[i][1], T.ftab[i][2]>> : i \in 1 .. Len(T.ftab) }
Reach == IF l = Len(Ev) + 1 /\ mem = T.final /\ ctab = FinalTab THEN TLCSet(t, TRUE) ELSE TRUE
ASSUME \A i \in 1 .. Len(Traces) : TLCSet(i, FALSE)
Accepted == \A i \in 1 .. Len(Traces) : TLCGet(i) \/ PrintT(ToJson([tid |-> i, why |-> "history-not-linearizable"]))
=============================================================================
