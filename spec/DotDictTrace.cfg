SPECIFICATION TSpec
INVARIANT Verdict
INVARIANT Known
CHECK_DEADLOCK FALSE
CONSTANTS
 KeyNames <- MCKeyNames
 Reserved = {4}
 MaxDepth = 0
 Rich = FALSE
