-------------------------------- MODULE Tnet --------------------------------
(***************************************************************************)
(* tnetstrings (property C20): <decimal length> ':' <payload> <type code>.   *)
(* Values: [t |-> "int", neg |-> b, digits |-> decimal digits]               *)
(*         [t |-> "float", txt |-> ASCII octets of the number's text]        *)
(*         [t |-> "bool", v |-> b]   [t |-> "null"]                          *)
(*         [t |-> "bytes", b |-> octets]   [t |-> "text", u |-> UTF-8 octets]*)
(*         [t |-> "list", xs |-> values]   [t |-> "dict", kv |-> << <<key octets, value>>, ... >>]   *)
(* Dump is the serialisation; Parse its inverse, returning the value and the *)
(* unconsumed rest.  Integers are digit strings (arbitrary precision).       *)
(***************************************************************************)
EXTENDS Bytes, Naturals, Sequences, TLC

RECURSIVE Dec(_)
Dec(n) == IF n < 10 THEN <<48 + n>> ELSE Dec(n \div 10) \o <<48 + (n % 10)>>     \* decimal text of a natural

Wrap(payload, code) == Dec(Len(payload)) \o <<58>> \o payload \o <<code>>

RECURSIVE Dump(_)
Dump(v) ==
  CASE v.t = "int"   -> Wrap((IF v.neg THEN <<45>> ELSE <<>>) \o v.digits, 35)          \* '#'
    [] v.t = "float" -> Wrap(v.txt, 94)                                                  \* '^'
    [] v.t = "bool"  -> Wrap(IF v.v THEN <<116, 114, 117, 101>> ELSE <<102, 97, 108, 115, 101>>, 33)   \* '!'
    [] v.t = "null"  -> <<48, 58, 126>>                                                  \* 0:~
    [] v.t = "bytes" -> Wrap(v.b, 44)                                                    \* ','
    [] v.t = "text"  -> Wrap(v.u, 36)                                                    \* '$'
    [] v.t = "list"  -> Wrap(Concat([ i \in 1 .. Len(v.xs) |-> Dump(v.xs[i]) ]), 93)     \* ']'
    [] v.t = "dict"  -> Wrap(Concat([ i \in 1 .. Len(v.kv) |-> Wrap(v.kv[i][1], 44) \o Dump(v.kv[i][2]) ]), 125)   \* '}'

\* ---- parsing
IsDigit(c) == c >= 48 /\ c <= 57
RECURSIVE Num(_, _)
Num(ds, acc) == IF ds = <<>> THEN acc ELSE Num(Tail(ds), acc * 10 + (Head(ds) - 48))
\* index of the first ':' (0 if none)
RECURSIVE Colon(_, _)
Colon(b, i) == IF i > Len(b) THEN 0 ELSE IF b[i] = 58 THEN i ELSE Colon(b, i + 1)

Bad == [ok |-> FALSE, v |-> [t |-> "null"], rest |-> <<>>]
RECURSIVE Parse(_), ParseList(_), ParseDict(_)
Parse(b) ==
  LET c == Colon(b, 1) IN
  IF c <= 1 \/ \E i \in 1 .. (c - 1) : ~IsDigit(b[i]) THEN Bad
  ELSE LET n == Num(SubSeq(b, 1, c - 1), 0) IN
       IF Len(b) < c + n + 1 THEN Bad
       ELSE LET p == SubSeq(b, c + 1, c + n)  code == b[c + n + 1]  rest == SubSeq(b, c + n + 2, Len(b)) IN
            CASE code = 35 -> [ok |-> TRUE, rest |-> rest,
                               v |-> IF p # <<>> /\ p[1] = 45 THEN [t |-> "int", neg |-> TRUE, digits |-> Tail(p)]
                                     ELSE [t |-> "int", neg |-> FALSE, digits |-> p]]
              [] code = 94 -> [ok |-> TRUE, rest |-> rest, v |-> [t |-> "float", txt |-> p]]
              [] code = 33 -> [ok |-> TRUE, rest |-> rest, v |-> [t |-> "bool", v |-> (p = <<116, 114, 117, 101>>)]]
              [] code = 126 -> IF n = 0 THEN [ok |-> TRUE, rest |-> rest, v |-> [t |-> "null"]] ELSE Bad
              [] code = 44 -> [ok |-> TRUE, rest |-> rest, v |-> [t |-> "bytes", b |-> p]]
              [] code = 36 -> [ok |-> TRUE, rest |-> rest, v |-> [t |-> "text", u |-> p]]
              [] code = 93 -> LET l == ParseList(p) IN IF l.ok THEN [ok |-> TRUE, rest |-> rest, v |-> [t |-> "list", xs |-> l.xs]] ELSE Bad
              [] code = 125 -> LET d == ParseDict(p) IN IF d.ok THEN [ok |-> TRUE, rest |-> rest, v |-> [t |-> "dict", kv |-> d.kv]] ELSE Bad
              [] OTHER -> Bad
ParseList(p) ==
  IF p = <<>> THEN [ok |-> TRUE, xs |-> <<>>]
  ELSE LET h == Parse(p) IN
       IF ~h.ok THEN [ok |-> FALSE, xs |-> <<>>]
       ELSE LET r == ParseList(h.rest) IN [ok |-> r.ok, xs |-> <<h.v>> \o r.xs]
ParseDict(p) ==
  IF p = <<>> THEN [ok |-> TRUE, kv |-> <<>>]
  ELSE LET k == Parse(p) IN
       IF ~k.ok \/ k.v.t # "bytes" \/ k.rest = <<>> THEN [ok |-> FALSE, kv |-> <<>>]
       ELSE LET x == Parse(k.rest) IN
            IF ~x.ok THEN [ok |-> FALSE, kv |-> <<>>]
            ELSE LET r == ParseDict(x.rest) IN [ok |-> r.ok, kv |-> << <<k.v.b, x.v>> >> \o r.kv]

\* C20: serialising and parsing returns an equal value and consumes the whole string -- also in front of any tail
RoundTrip(v) == LET r == Parse(Dump(v)) IN r.ok /\ r.v = v /\ r.rest = <<>>
RoundTripTail(v, tail) == LET r == Parse(Dump(v) \o tail) IN r.ok /\ r.v = v /\ r.rest = tail
=============================================================================
