-------------------------------- MODULE Tnet --------------------------------
(***************************************************************************)
(* tnetstrings (property C20): <decimal length> ':' <payload> <type code>.   *)
(* Values: [t |-> "int", neg |-> b, digits |-> decimal digits]               *)
(*         [t |-> "float", txt |-> ASCII octets of the number's text]        *)
(*         [t |-> "bool", v |-> b]   [t |-> "null"]                          *)
(*         [t |-> "bytes", b |-> octets]   [t |-> "text", cp |-> code points] *)
(*         [t |-> "list", xs |-> values]   [t |-> "dict", kv |-> << <<key octets, value>>, ... >>]   *)
(* Dump is the serialisation; Parse its inverse, returning the value and the *)
(* unconsumed rest.  Integers are digit strings (arbitrary precision).       *)
(* Text is a sequence of code points, written in the encoding both sides are  *)
(* given ("utf-8", the default, "latin-1", "utf-16-le"); it applies to text   *)
(* at every nesting depth.                                                     *)
(***************************************************************************)
EXTENDS Bytes, Naturals, Sequences, TLC

RECURSIVE Dec(_)
Dec(n) == IF n < 10 THEN <<48 + n>> ELSE Dec(n \div 10) \o <<48 + (n % 10)>>     \* decimal text of a natural

Wrap(payload, code) == Dec(Len(payload)) \o <<58>> \o payload \o <<code>>

\* ---- text encodings (code points < 65536)
Utf8(c) == IF c < 128 THEN <<c>> ELSE IF c < 2048 THEN <<192 + (c \div 64), 128 + (c % 64)>>
           ELSE <<224 + (c \div 4096), 128 + ((c \div 64) % 64), 128 + (c % 64)>>
EncText(enc, cps) == IF enc = "latin-1" THEN cps
                     ELSE IF enc = "utf-16-le" THEN Concat([ i \in 1 .. Len(cps) |-> <<cps[i] % 256, cps[i] \div 256>> ])      \* (an encoding that is no superset of ASCII)
                     ELSE Concat([ i \in 1 .. Len(cps) |-> Utf8(cps[i]) ])
Encodable(enc, cps) == enc # "latin-1" \/ \A i \in 1 .. Len(cps) : cps[i] < 256
RECURSIVE DecUtf8(_)
\* code points of well-formed UTF-8 octets (<<0 - 1>> in front of whatever follows a malformed place)
DecUtf8(b) ==
  IF b = <<>> THEN <<>>
  ELSE LET c == b[1] IN
       IF c < 128 THEN <<c>> \o DecUtf8(Tail(b))
       ELSE IF c >= 192 /\ c < 224 /\ Len(b) >= 2 THEN <<(c - 192) * 64 + (b[2] - 128)>> \o DecUtf8(SubSeq(b, 3, Len(b)))
       ELSE IF c >= 224 /\ c < 240 /\ Len(b) >= 3 THEN <<(c - 224) * 4096 + (b[2] - 128) * 64 + (b[3] - 128)>> \o DecUtf8(SubSeq(b, 4, Len(b)))
       ELSE <<0 - 1>>
DecText(enc, b) == IF enc = "latin-1" THEN b
                   ELSE IF enc = "utf-16-le" THEN (IF Len(b) % 2 = 1 THEN <<0 - 1>> ELSE [ i \in 1 .. (Len(b) \div 2) |-> b[2 * i - 1] + 256 * b[2 * i] ])
                   ELSE DecUtf8(b)

RECURSIVE DumpE(_, _)
DumpE(v, enc) ==
  CASE v.t = "int"   -> Wrap((IF v.neg THEN <<45>> ELSE <<>>) \o v.digits, 35)          \* '#'
    [] v.t = "float" -> Wrap(v.txt, 94)                                                  \* '^'
    [] v.t = "bool"  -> Wrap(IF v.v THEN <<116, 114, 117, 101>> ELSE <<102, 97, 108, 115, 101>>, 33)   \* '!'
    [] v.t = "null"  -> <<48, 58, 126>>                                                  \* 0:~
    [] v.t = "bytes" -> Wrap(v.b, 44)                                                    \* ','
    [] v.t = "text"  -> Wrap(EncText(enc, v.cp), 36)                                     \* '$'
    [] v.t = "list"  -> Wrap(Concat([ i \in 1 .. Len(v.xs) |-> DumpE(v.xs[i], enc) ]), 93)     \* ']'
    [] v.t = "dict"  -> Wrap(Concat([ i \in 1 .. Len(v.kv) |-> Wrap(v.kv[i][1], 44) \o DumpE(v.kv[i][2], enc) ]), 125)   \* '}'
Dump(v) == DumpE(v, "utf-8")

\* ---- parsing
IsDigit(c) == c >= 48 /\ c <= 57
RECURSIVE Num(_, _)
Num(ds, acc) == IF ds = <<>> THEN acc ELSE Num(Tail(ds), acc * 10 + (Head(ds) - 48))
\* index of the first ':' (0 if none)
RECURSIVE Colon(_, _)
Colon(b, i) == IF i > Len(b) THEN 0 ELSE IF b[i] = 58 THEN i ELSE Colon(b, i + 1)

Bad == [ok |-> FALSE, v |-> [t |-> "null"], rest |-> <<>>]
RECURSIVE ParseE(_, _), ParseList(_, _), ParseDict(_, _)
ParseE(b, enc) ==
  LET c == Colon(b, 1) IN
  IF c <= 1 \/ \E i \in 1 .. (c - 1) : ~IsDigit(b[i]) THEN Bad
  ELSE LET n == Num(SubSeq(b, 1, c - 1), 0) IN
       IF Len(b) < c + n + 1 THEN Bad
       ELSE LET p == SubSeq(b, c + 1, c + n)  code == b[c + n + 1]  rest == SubSeq(b, c + n + 2, Len(b)) IN
            CASE code = 35 -> [ok |-> TRUE, rest |-> rest,
                               v |-> IF p # <<>> /\ p[1] = 45 THEN [t |-> "int", neg |-> TRUE, digits |-> Tail(p)]
                                     ELSE [t |-> "int", neg |-> FALSE, digits |-> p]]
              [] code = 94 -> [ok |-> TRUE, rest |-> rest, v |-> [t |-> "float", txt |-> p]]
              [] code = 33 -> [ok |-> TRUE, rest |-> rest, v |-> [t |-> "bool", v |-> (p = <<116, 114, 117, 101>>)]]
              [] code = 126 -> IF n = 0 THEN [ok |-> TRUE, rest |-> rest, v |-> [t |-> "null"]] ELSE Bad
              [] code = 44 -> [ok |-> TRUE, rest |-> rest, v |-> [t |-> "bytes", b |-> p]]
              [] code = 36 -> [ok |-> TRUE, rest |-> rest, v |-> [t |-> "text", cp |-> DecText(enc, p)]]
              [] code = 93 -> LET l == ParseList(p, enc) IN IF l.ok THEN [ok |-> TRUE, rest |-> rest, v |-> [t |-> "list", xs |-> l.xs]] ELSE Bad
              [] code = 125 -> LET d == ParseDict(p, enc) IN IF d.ok THEN [ok |-> TRUE, rest |-> rest, v |-> [t |-> "dict", kv |-> d.kv]] ELSE Bad
              [] OTHER -> Bad
ParseList(p, enc) ==
  IF p = <<>> THEN [ok |-> TRUE, xs |-> <<>>]
  ELSE LET h == ParseE(p, enc) IN
       IF ~h.ok THEN [ok |-> FALSE, xs |-> <<>>]
       ELSE LET r == ParseList(h.rest, enc) IN [ok |-> r.ok, xs |-> <<h.v>> \o r.xs]
ParseDict(p, enc) ==
  IF p = <<>> THEN [ok |-> TRUE, kv |-> <<>>]
  ELSE LET k == ParseE(p, enc) IN
       IF ~k.ok \/ k.v.t # "bytes" \/ k.rest = <<>> THEN [ok |-> FALSE, kv |-> <<>>]
       ELSE LET x == ParseE(k.rest, enc) IN
            IF ~x.ok THEN [ok |-> FALSE, kv |-> <<>>]
            ELSE LET r == ParseDict(x.rest, enc) IN [ok |-> r.ok, kv |-> << <<k.v.b, x.v>> >> \o r.kv]

\* C20: serialising and parsing returns an equal value and consumes the whole string -- also in front of any tail
Parse(b) == ParseE(b, "utf-8")
RoundTrip(v, enc) == LET r == ParseE(DumpE(v, enc), enc) IN r.ok /\ r.v = v /\ r.rest = <<>>
RoundTripTail(v, enc, tail) == LET r == ParseE(DumpE(v, enc) \o tail, enc) IN r.ok /\ r.v = v /\ r.rest = tail
\* can every text inside v be written in the encoding?
RECURSIVE EncodableV(_, _)
EncodableV(enc, v) == CASE v.t = "text" -> Encodable(enc, v.cp)
                        [] v.t = "list" -> \A i \in 1 .. Len(v.xs) : EncodableV(enc, v.xs[i])
                        [] v.t = "dict" -> \A i \in 1 .. Len(v.kv) : EncodableV(enc, v.kv[i][2])
                        [] OTHER -> TRUE
RECURSIVE HasText(_)
HasText(v) == CASE v.t = "text" -> TRUE [] v.t = "list" -> \E i \in 1 .. Len(v.xs) : HasText(v.xs[i])
                [] v.t = "dict" -> \E i \in 1 .. Len(v.kv) : HasText(v.kv[i][2]) [] OTHER -> FALSE
=============================================================================
