------------------------------ MODULE TsObject ------------------------------
(***************************************************************************)
(* The timestamp OBJECT (cpppo/history/times.py: class timestamp) as a       *)
(* state machine -- property C17 on instants that are reached by in-place     *)
(* arithmetic rather than constructed.  State: the value u (microseconds      *)
(* from the window's base) and the memoised millisecond rendering `memo'      *)
(* (None: nothing memoised).  str() / .utc fill the memo; assignment and      *)
(* in-place += / -= change the value and must drop it.                        *)
(*                                                                           *)
(* Coherent: a memoised rendering is the rendering of the current value --    *)
(* otherwise comparison (which uses the value) contradicts the rendering.     *)
(* TLC checks it on every history of <= MaxOps operations over a window of     *)
(* instants around a second boundary with adjustments on both sides of the     *)
(* one-millisecond comparison epsilon; every history is emitted and replayed   *)
(* on a real timestamp object.                                                 *)
(***************************************************************************)
EXTENDS Times, Json
CONSTANTS MaxOps
None == 0 - 1
Starts == {0, 400, 999600, 1000400}
Deltas == {1, 400, 600, 999, 1000, 1400}
VARIABLES u, u0, memo, h
vars == <<u, u0, memo, h>>
Init == u \in Starts /\ u0 = u /\ memo = None /\ h = <<>>
Str == /\ memo' = Render3(u) /\ UNCHANGED <<u, u0>> /\ h' = Append(h, <<"str", 0>>)
IAdd(d) == /\ u' = u + d /\ UNCHANGED u0 /\ memo' = None /\ h' = Append(h, <<"iadd", d>>)
ISub(d) == /\ u >= d /\ u' = u - d /\ UNCHANGED u0 /\ memo' = None /\ h' = Append(h, <<"isub", d>>)
Next == Len(h) < MaxOps /\ (Str \/ \E d \in Deltas : IAdd(d) \/ ISub(d))
Spec == Init /\ [][Next]_vars
Coherent == memo = None \/ memo = Render3(u)
\* what any observer sees: the rendering of the value, memoised or not
Shown == IF memo = None THEN Render3(u) ELSE memo
ShownIsValue == Shown = Render3(u)
\* emission: complete histories (and every history ending in an adjustment that follows a rendering)
Emit == (Len(h) = MaxOps \/ (Len(h) >= 2 /\ h[Len(h)][1] # "str" /\ h[Len(h) - 1][1] = "str"))
           => PrintT(ToJson([k |-> "ts", start |-> u0, h |-> h, u |-> u, r |-> Render3(u), tie |-> IsTie(u, 3)]))
=============================================================================
