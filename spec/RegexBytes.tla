----------------------------- MODULE RegexBytes -----------------------------
(***************************************************************************)
(* The translation of a symbol-level automaton into a machine over UTF-8    *)
(* octets AS CODED in automata.py (state.from_regex with an encoder), next  *)
(* to the property-level reading of Regex.tla.  DEVIATION(code): the two    *)
(* differ (known findings F10, F11 of C11); this module says exactly how,   *)
(* so that a run rejected by the property is the known finding only if it is *)
(* precisely what the coded translation does.                                *)
(*                                                                           *)
(* The regex library's automaton is deterministic and complete over the      *)
(* symbols NAMED in the expression plus "anything else"; its states are the  *)
(* residual languages (derivatives), the one dead state (empty residual) is   *)
(* dropped and edges into it become explicit non-transitions.  The coded      *)
(* translation then                                                            *)
(*   - turns the edge of a named one-octet symbol into an edge on that octet,  *)
(*   - turns the edge of a named multi-octet symbol c into a chain: the first   *)
(*     octets of c lead through intermediate, non-terminal states -- entered    *)
(*     UNCONDITIONALLY, even when the residual after c is dead -- and the last  *)
(*     octet leads to the residual after c (or is refused when that is dead),   *)
(*   - makes "anything else" an edge on ANY OTHER SINGLE OCTET (so '.' and a    *)
(*     negated class take one octet of a multi-octet symbol that is not named),  *)
(*     and copies that edge onto the intermediate states (so the lead octets of  *)
(*     c followed by a foreign octet count as ONE "anything else"),             *)
(*   - and is refused at construction when a multi-octet symbol is named         *)
(*     together with any other symbol.                                            *)
(***************************************************************************)
EXTENDS Regex
CONSTANT Enc              \* Enc[c]: the octets of symbol c

\* one-symbol expressions as (negated, set); the regex library merges an alternation of them into ONE class before it
\* collects the alphabet: a|[^P] is [^P] and names P only, .|P is . and names nothing
IsAtom(e) == e.k \in {"chr", "any", "cls", "ncls"}
AtomSet(e) == CASE e.k = "chr" -> [neg |-> FALSE, s |-> {e.c}] [] e.k = "any" -> [neg |-> TRUE, s |-> {}]
                [] e.k = "cls" -> [neg |-> FALSE, s |-> e.s] [] e.k = "ncls" -> [neg |-> TRUE, s |-> e.s]
Merged(x, y) == IF ~x.neg /\ ~y.neg THEN x.s \cup y.s ELSE IF x.neg /\ y.neg THEN x.s \cap y.s ELSE IF x.neg THEN x.s \ y.s ELSE y.s \ x.s
RECURSIVE Named(_)
Named(e) ==               \* the symbols an expression names: the regex library's alphabet, next to "anything else"
  CASE e.k \in {"empty", "eps", "any"} -> {}
    [] e.k = "chr" -> {e.c}
    [] e.k \in {"cls", "ncls"} -> e.s
    [] e.k = "alt" /\ IsAtom(e.l) /\ IsAtom(e.r) -> Merged(AtomSet(e.l), AtomSet(e.r))
    [] e.k \in {"cat", "alt"} -> Named(e.l) \cup Named(e.r)
    [] e.k \in {"star", "plus", "opt", "rep"} -> Named(e.x)

Multi(e) == { c \in Named(e) : Len(Enc[c]) > 1 }
Supported(e) == Multi(e) = {} \/ Cardinality(Named(e)) = 1
Else == 0                 \* a symbol no expression names: "anything else"

RECURSIVE Octets(_)
Octets(s) == IF s = <<>> THEN <<>> ELSE Enc[Head(s)] \o Octets(Tail(s))

\* The coded machine's state: residual r, and i lead octets of the named multi-octet symbol taken (0: at a state of the
\* symbol-level automaton).  Runs until the input ends or the next octet has no transition.
RECURSIVE RunCoded(_, _, _, _, _)
RunCoded(e, os, k, r, i) ==
  IF k = Len(os) THEN [n |-> k, r |-> r, i |-> i]
  ELSE LET o == os[k + 1]
           M == Multi(e)
           c == IF M = {} THEN Else ELSE CHOOSE x \in M : TRUE
           single == { x \in Named(e) : Enc[x] = <<o>> }
           Stop == [n |-> k, r |-> r, i |-> i]
           Go(r2) == IF IsEmpty(r2) THEN Stop ELSE RunCoded(e, os, k + 1, r2, 0)
       IN IF i = 0
          THEN IF single # {} THEN Go(Deriv(r, CHOOSE x \in single : TRUE))
               ELSE IF M # {} /\ Enc[c][1] = o THEN RunCoded(e, os, k + 1, r, 1)
               ELSE Go(Deriv(r, Else))
          ELSE IF Enc[c][i + 1] = o
               THEN IF i + 1 = Len(Enc[c]) THEN Go(Deriv(r, c)) ELSE RunCoded(e, os, k + 1, r, i + 1)
               ELSE Go(Deriv(r, Else))
\* octets consumed and acceptance of the coded machine on the encoding of s
Coded(e, s) == LET x == RunCoded(e, Octets(s), 0, e, 0) IN [n |-> x.n, accept |-> x.n >= 1 /\ x.i = 0 /\ Nullable(x.r)]
\* where the coded translation keeps the property: no multi-octet symbol anywhere near
Plain(e, s) == \A j \in 1 .. Len(s) : Len(Enc[s[j]]) = 1
=============================================================================
