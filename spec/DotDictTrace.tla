---------------------------- MODULE DotDictTrace ----------------------------
(* Validation of operations executed on the real cpppo.dotdict against DotDict.                                  *)
(* One NDJSON line per trace: {"fan": b, "from": [entries], "ev": [event, ...]}; an event is                     *)
(*   {"o": operation as emitted by MC_DotDict, "ok": succeeded?, "res": {"leaf","v","sub"}, "S": [entries after], *)
(*    "items": [{"key","v"}] (iteration result, for o = keys), "selfok": every listed key looked up to its value,  *)
(*    "formsok": item / attribute / index forms of the same access agreed}.                                       *)
(* fan = TRUE: every event starts from `from' (per-transition replay); FALSE: one history.                       *)
EXTENDS MC_DotDict, IOUtils, TLCExt

Traces == ndJsonDeserialize(IOEnv.TRACE_FILE)
VARIABLES t, l
tvars == <<vars, t, l>>

ToSet(s) == { s[i] : i \in 1 .. Len(s) }
ValOf(j) == [k |-> j.k, v |-> j.v, ents |-> ToSet(j.ents), elems |-> [ i \in 1 .. Len(j.elems) |-> ToSet(j.elems[i]) ]]
OpOf(j)  == [o |-> j.o, tok |-> j.tok, val |-> ValOf(j.val), key |-> j.key]

TInit == /\ t \in 1 .. Len(Traces) /\ l = 1 /\ S = ToSet(Traces[t].from) /\ op = [o |-> "none"] /\ depth = 0
Ev == Traces[t].ev
Before == IF Traces[t].fan THEN ToSet(Traces[t].from) ELSE S

ResEq(j, r) == j.leaf = r.leaf /\ (r.leaf => j.v = r.v) /\ (~r.leaf => ToSet(j.sub) = r.sub)

\* C16 iteration: exactly the leaf paths, each once, each with its value; an EMPTY level may or may not be listed
\* (PERMISSIVE: the statement speaks of leaf paths only)
KeysOK(e, st) ==
  LET items == ToSet(e.items)
      must  == { [key |-> Join(x.p), v |-> x.v] : x \in { y \in st : y.v # 0 } }
      may   == { [key |-> Join(x.p), v |-> 0] : x \in { y \in st : y.v = 0 } }
  IN /\ Cardinality(items) = Len(e.items) /\ must \subseteq items /\ items \subseteq (must \cup may) /\ e.selfok

Accept(e, st, tok) ==
  LET o == [OpOf(e.o) EXCEPT !.tok = tok]  p == Resolve(o.tok)  r == Apply(st, o)  after == ToSet(e.S) IN
  /\ e.formsok
  /\ CASE o.o = "get" -> e.ok = r.ok /\ (r.ok => ResEq(e.res, r.res)) /\ after = st
       [] o.o = "in"  -> e.ok = r.ok /\ after = st
       [] o.o = "set" -> IF r.ok THEN e.ok /\ after = r.S ELSE ~e.ok /\ after \in RefusedStates(st, p)
       [] o.o = "del" -> e.ok = r.ok /\ after = r.S
       [] o.o = "pop" -> \/ e.ok = r.ok /\ (r.ok => ResEq(e.res, r.res)) /\ after = r.S
                         \* PERMISSIVE(C16): pop through a list index may be unsupported (fails, nothing changes)
                         \/ (\E n \in 1 .. Len(p) : p[n][2] >= 0) /\ ~e.ok /\ after = st
       [] o.o = "setdefault" -> IF r.ok THEN e.ok /\ ResEq(e.res, r.res) /\ after = r.S
                                ELSE ~e.ok /\ after \in RefusedStates(st, p)
       [] o.o = "keys" -> KeysOK(e, st) /\ after = st

\* KNOWN FINDING F7 (see known_findings.json): a key made of ONE leading dot and ONE component ('.a', '.l[0]') is
\* resolved by the code as component.component ('a.a').  A step that is exactly explained by that defect is
\* accepted (so the rest of the trace is still checked) and reported as known; any other deviation is a violation.
F7Pattern(tok) == Len(tok) = 2 /\ tok[1] = UP /\ tok[2] # UP
AcceptF7(e, st) == F7Pattern(e.o.tok) /\ Accept(e, st, <<e.o.tok[2], e.o.tok[2]>>)

TStep == /\ l <= Len(Ev) /\ (Accept(Ev[l], Before, Ev[l].o.tok) \/ AcceptF7(Ev[l], Before))
         /\ S' = ToSet(Ev[l].S) /\ l' = l + 1 /\ UNCHANGED <<t, op, depth>>
TSpec == TInit /\ [][TStep]_tvars
Verdict == (l <= Len(Ev) /\ ~ENABLED TStep) => PrintT(ToJson([tid |-> t, at |-> l, why |-> Ev[l].o.o]))
Known   == (l <= Len(Ev) /\ ~Accept(Ev[l], Before, Ev[l].o.tok) /\ AcceptF7(Ev[l], Before))
              => PrintT(ToJson([known |-> "F7", ktid |-> t, kat |-> l]))
=============================================================================
