----------------------------- MODULE MC_PollRun -----------------------------
(* every pattern of successes and failures of 1..7 polls; the default parameters: cycle 1 s, back-off 1 s .. 10 s *)
EXTENDS PollRun
AllPatterns == UNION { [1 .. n -> BOOLEAN] : n \in 1 .. 7 }
=============================================================================
