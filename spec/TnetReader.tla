----------------------------- MODULE TnetReader -----------------------------
(***************************************************************************)
(* The socket-level tnetstring reader (cpppo/server/tnet.py: tnet_from) as a *)
(* state machine -- property C20, "fed the same bytes in any chunking".      *)
(* The peer's octets (Stream: messages, optionally separated and followed by *)
(* symbols the reader is told to Ignore) arrive in chunks; between chunks     *)
(* the receive may time out, which the reader reports by yielding "timeout"   *)
(* (None) and trying again.  State: the octets not yet delivered, the octets  *)
(* received and not yet consumed, what was yielded so far.                    *)
(*                                                                           *)
(* Law (ChunkingIndependent): whatever the schedule of chunks and timeouts,   *)
(* when everything has been delivered the messages yielded are exactly the    *)
(* messages of the stream, in order; a timeout never loses, duplicates or     *)
(* alters one -- in particular an Ignore symbol INSIDE a payload is payload.  *)
(* Every complete schedule is emitted and replayed on the real reader over a   *)
(* scripted receive function, yields compared one by one (timeouts included).  *)
(***************************************************************************)
EXTENDS Tnet, Json, SequencesExt
CONSTANTS Streams,        \* set of [msgs |-> sequence of values, sep |-> octets, ignore |-> set of octets]
          MaxChunks, MaxTimeouts
VARIABLES st, rest, buf, out, h, nt
vars == <<st, rest, buf, out, h, nt>>

OctetsOf(s) == Concat([ i \in 1 .. Len(s.msgs) |-> Dump(s.msgs[i]) \o s.sep ])
RECURSIVE Strip(_, _)
Strip(b, ign) == IF b # <<>> /\ b[1] \in ign THEN Strip(Tail(b), ign) ELSE b
\* consume every complete message at the head of the buffer (ignored symbols between messages dropped)
RECURSIVE Drain(_, _, _)
Drain(b, ign, acc) ==
  LET c == Strip(b, ign)  r == Parse(c) IN
  IF c # <<>> /\ r.ok THEN Drain(r.rest, ign, Append(acc, [y |-> "msg", v |-> r.v])) ELSE [buf |-> c, out |-> acc]

Init == /\ st \in Streams /\ rest = OctetsOf(st) /\ buf = <<>> /\ out = <<>> /\ h = <<>> /\ nt = 0
Recv(n) == /\ n \in 1 .. Len(rest) /\ Len(SelectSeq(h, LAMBDA e : e[1] = "recv")) < MaxChunks
           /\ (Len(SelectSeq(h, LAMBDA e : e[1] = "recv")) = MaxChunks - 1 => n = Len(rest))       \* the last chunk takes the rest
           /\ LET d == Drain(buf \o SubSeq(rest, 1, n), st.ignore, out) IN buf' = d.buf /\ out' = d.out
           /\ rest' = SubSeq(rest, n + 1, Len(rest)) /\ h' = Append(h, <<"recv", n>>) /\ UNCHANGED <<st, nt>>
Timeout == /\ rest # <<>> /\ nt < MaxTimeouts /\ nt' = nt + 1
           /\ out' = Append(out, [y |-> "timeout", v |-> [t |-> "null"]]) /\ h' = Append(h, <<"timeout", 0>>) /\ UNCHANGED <<st, rest, buf>>
Next == (\E n \in 1 .. Len(rest) : Recv(n)) \/ Timeout
Spec == Init /\ [][Next]_vars

Yielded == SelectSeq(out, LAMBDA e : e.y = "msg")
ChunkingIndependent == rest = <<>> => /\ Len(Yielded) = Len(st.msgs) /\ \A i \in 1 .. Len(st.msgs) : Yielded[i].v = st.msgs[i]
                                      /\ buf = <<>>
\* nothing is yielded before its last octet was delivered, and never more than the stream holds
Prefix == Len(Yielded) <= Len(st.msgs) /\ \A i \in 1 .. Len(Yielded) : Yielded[i].v = st.msgs[i]
Emit == rest = <<>> => PrintT(ToJson([k |-> "sched", msgs |-> st.msgs, sep |-> st.sep, ignore |-> SetToSeq(st.ignore), b |-> OctetsOf(st), h |-> h, out |-> out]))
=============================================================================
