----------------------------- MODULE MC_DotDict -----------------------------
(* Bounded instance of DotDict: keys a, b, l (+ the reserved name `keys'), paths of up to 3 tokens including    *)
(* empty tokens (leading dot, '..'), list elements l[0], l[1]; all histories to MaxDepth.                     *)
EXTENDS DotDict, Json

CONSTANTS MaxDepth, Rich
VARIABLES S, op, depth
vars == <<S, op, depth>>
MCKeyNames == <<"a", "b", "l", "keys">>

A == <<1, 0 - 1>>   B == <<2, 0 - 1>>   L == <<3, 0 - 1>>   L0 == <<3, 0>>   L1 == <<3, 1>>   K == <<4, 0 - 1>>
Toks == {A, B, L, L0, L1, UP}
TokSeqs ==
  { <<x>> : x \in Toks \ {UP} } \cup { <<x, y>> : x \in Toks, y \in Toks \ {UP} }
  \cup { <<x, y, z>> : x \in {A, L0, L1, UP}, y \in {A, B, UP}, z \in {A, B} }
  \cup (IF Rich THEN { <<x, y, UP, z>> : x \in {A, L0}, y \in {A, B}, z \in {A, B} } ELSE {})
  \cup { <<K>>, <<A, K>>, <<A, UP, K>>, <<A, B, UP, K>> }        \* a reserved name as the resolved final segment, also reached through '..'
  \cup { <<x, y, UP>> : x \in {A, L0}, y \in {A, B} } \cup { <<A, B, A, UP, UP>> }      \* '..' as the LAST component: the parent level itself
\* paths that name something after resolution
GoodSeqs == { s \in TokSeqs : Resolve(s) # <<>> }

Leaf(n) == [k |-> "leaf", v |-> n, ents |-> {}, elems |-> <<>>]
Map(es) == [k |-> "map", v |-> 0, ents |-> es, elems |-> <<>>]
Lst(el) == [k |-> "list", v |-> 0, ents |-> {}, elems |-> el]
E(p, v) == [p |-> p, v |-> v]
\* (the harness stores leaf 2 as the integer 0 and leaf 3 as None: values that are false in Python)
Vals == { Leaf(1), Leaf(2), Leaf(3), Map({}), Map({E(<<B>>, 1)}), Map({E(<<A, B>>, 2), E(<<B>>, 1)}),
          Lst(<< {E(<<A>>, 1)}, {} >>), Lst(<<>>) }
MapVals == { v \in Vals : v.k = "map" }

O(o, tok, val) == [o |-> o, tok |-> tok, val |-> val, key |-> Join(tok)]
LastSeg(s) == LET p == Resolve(s) IN p[Len(p)]
IndexedLast(s) == LastSeg(s)[2] >= 0
Ops ==
  { O(o, s, Leaf(0)) : o \in {"get", "in"}, s \in GoodSeqs }
  \cup { O(o, s, Leaf(0)) : o \in {"del", "pop"}, s \in { x \in GoodSeqs : ~IndexedLast(x) /\ LastSeg(x) # L } }
  \cup { O("set", s, v) : s \in { x \in GoodSeqs : ~IndexedLast(x) }, v \in Vals }
  \cup { O("set", s, v) : s \in { x \in GoodSeqs : IndexedLast(x) }, v \in MapVals }
  \cup { O("setdefault", s, v) : s \in { x \in GoodSeqs : ~IndexedLast(x) }, v \in {Leaf(2), Map({E(<<B>>, 1)})} }
  \cup { O("keys", <<A>>, Leaf(0)) }

Apply(st, o) ==
  LET p == Resolve(o.tok) IN
  CASE o.o = "get" -> OpGet(st, p) [] o.o = "in" -> OpIn(st, p) [] o.o = "set" -> OpSet(st, p, o.val)
    [] o.o = "del" -> OpDel(st, p) [] o.o = "pop" -> OpPop(st, p) [] o.o = "setdefault" -> OpSetDefault(st, p, o.val)
    [] o.o = "keys" -> [S |-> st, ok |-> TRUE, res |-> Fail]

Init == S = {} /\ op = [o |-> "none"] /\ depth = 0
Next == /\ depth < MaxDepth /\ depth' = depth + 1
        /\ \E o \in Ops : LET r == Apply(S, o) IN S' = r.S /\ op' = [o |-> o, ok |-> r.ok]
Spec == Init /\ [][Next]_vars

\* ---- laws of C16 checked on the specification
WellFormed == WF(S)
\* membership agrees with lookup; every listed leaf looks up to its value; interior nodes look up to their sub-tree
IterationMatchesLookup ==
  \A e \in S : LET r == Lookup(S, e.p) IN r.ok /\ (e.v # 0 => r.leaf /\ r.v = e.v) /\ (e.v = 0 => ~r.leaf /\ r.sub = {})
InteriorLookup == \A e \in S : \A n \in 1 .. (Len(e.p) - 1) :
                     LET r == Lookup(S, SubSeq(e.p, 1, n)) IN r.ok /\ ~r.leaf /\ r.sub # {}
\* a refused or read-only operation changes nothing
ReadOnly == [][ op'.o.o \in {"get", "in", "keys"} \/ ~op'.ok => S' = S ]_vars
\* '..' addresses the parent level: an operation through a key with empty tokens equals the one on the resolved path
\* (by construction of Apply); deleting never removes a non-empty level
DelOnlyLeaves == [][ op'.o.o = "del" /\ op'.ok /\ ~IsListAt(S, Resolve(op'.o.tok)) => Cardinality(S \ S') = 1 ]_vars

\* the reserved names: the mapping interface's own method names (the bounded model uses one of them, `keys', as a key; every one of
\* them must be refused as the final name of an assignment, by item, path or attribute)
ReservedNames == <<"keys", "values", "items", "iterkeys", "itervalues", "iteritems", "listkeys", "listvalues", "listitems",
                   "pop", "popitem", "get", "set", "update", "setdefault", "clear", "copy">>
ASSUME PrintT(ToJson([k |-> "reserved", names |-> ReservedNames]))
\* ---- emission
ASSUME \A o \in Ops : PrintT(ToJson([k |-> "op", o |-> o]))
EmitState == PrintT(ToJson([k |-> "state", S |-> S, depth |-> depth]))
StateView == S
MutNext == /\ depth < MaxDepth /\ depth' = depth + 1
           /\ \E o \in { x \in Ops : x.o \in {"set", "del", "pop"} } : LET r == Apply(S, o) IN r.ok /\ S' = r.S /\ op' = [o |-> o, ok |-> r.ok]
SDView == <<S, depth>>
=============================================================================
