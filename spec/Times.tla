-------------------------------- MODULE Times -------------------------------
(***************************************************************************)
(* Timestamps and durations (cpppo/history/times.py) -- property C17.        *)
(* Instants are integer microseconds; a zone is described around one         *)
(* transition by [at, off0, off1] (UTC instant of the change, offset before   *)
(* and after, all in microseconds / seconds as noted).                       *)
(***************************************************************************)
EXTENDS Naturals, Integers, Sequences, FiniteSets, TLC

\* ---- rendering to p sub-second digits and the epsilon comparison
Pow10(n) == CASE n = 0 -> 1 [] n = 1 -> 10 [] n = 2 -> 100 [] n = 3 -> 1000 [] n = 4 -> 10000 [] n = 5 -> 100000 [] n = 6 -> 1000000
Unit(p) == Pow10(6 - p)                                   \* microseconds per last rendered digit
IsTie(u, p) == p < 6 /\ (u % Unit(p)) * 2 = Unit(p)           \* exactly half way: binary floating point may go either way
Rounded(u, p) == ((u * 2 + Unit(p)) \div (2 * Unit(p))) * Unit(p)   \* round to nearest (ties excluded by IsTie)
Render3(u) == Rounded(u, 3) \div 1000                       \* the rendering to milliseconds, as a number of milliseconds

Eps == 1000                                                \* one millisecond
Less(a, b) == a + Eps < b
Equal(a, b) == ~Less(a, b) /\ ~Less(b, a)

\* C17: comparison never contradicts the order of the millisecond renderings; equal renderings compare equal
OrderLaw(a, b) == /\ (Less(a, b) => Render3(a) < Render3(b))
                  /\ (Less(b, a) => Render3(a) > Render3(b))
                  /\ (Render3(a) = Render3(b) => Equal(a, b))

\* ---- a zone around one transition; offsets in seconds, instants in seconds
Off(z, u) == IF u < z.at THEN z.off0 ELSE z.off1
Wall(z, u) == u + Off(z, u)
\* instants whose wall-clock reading in the zone is w
Cands(z, w) == { v \in {w - z.off0, w - z.off1} : Wall(z, v) = w }
\* parsing the rendering of instant u (zone given without daylight-saving designation)
ParseOf(z, u) == LET c == Cands(z, Wall(z, u)) IN IF Cardinality(c) = 1 THEN [ok |-> TRUE, u |-> CHOOSE v \in c : TRUE] ELSE [ok |-> FALSE, u |-> 0]
\* rendering and parsing returns the same instant, or the wall-clock time is ambiguous and is rejected
ZoneLaw(z, u) == LET r == ParseOf(z, u) IN r.ok => r.u = u

\* ---- durations: [sec, us] <-> sequence of <<count, unit>> tokens
YR == 31557600  WK == 604800  DY == 86400  HR == 3600  MN == 60
Tok(n, unit) == IF n = 0 THEN <<>> ELSE << <<n, unit>> >>
Format(d) ==
  LET y == d.sec \div YR  r1 == d.sec % YR  w == r1 \div WK  r2 == r1 % WK  dd == r2 \div DY  r3 == r2 % DY
      h == r3 \div HR  r4 == r3 % HR  m == r4 \div MN  s == r4 % MN
      sub == IF d.us = 0 THEN Tok(s, "s")
             ELSE IF d.us % 1000 = 0 /\ s = 0 THEN << <<d.us \div 1000, "ms">> >>
             ELSE IF d.us < 1000 THEN Tok(s, "s") \o << <<d.us, "us">> >>
             ELSE << <<s * 1000000 + d.us, "frac">> >>                   \* seconds with a six-digit fraction
  IN IF d.sec = 0 /\ d.us = 0 THEN << <<0, "s">> >>
     ELSE Tok(y, "y") \o Tok(w, "w") \o Tok(dd, "d") \o Tok(h, "h") \o Tok(m, "m") \o sub
RECURSIVE Parse(_)
Parse(toks) ==
  IF toks = <<>> THEN [sec |-> 0, us |-> 0]
  ELSE LET t == Head(toks)  r == Parse(Tail(toks)) IN
       CASE t[2] = "y" -> [r EXCEPT !.sec = @ + t[1] * YR] [] t[2] = "w" -> [r EXCEPT !.sec = @ + t[1] * WK]
         [] t[2] = "d" -> [r EXCEPT !.sec = @ + t[1] * DY] [] t[2] = "h" -> [r EXCEPT !.sec = @ + t[1] * HR]
         [] t[2] = "m" -> [r EXCEPT !.sec = @ + t[1] * MN] [] t[2] = "s" -> [r EXCEPT !.sec = @ + t[1]]
         [] t[2] = "ms" -> [r EXCEPT !.us = @ + t[1] * 1000] [] t[2] = "us" -> [r EXCEPT !.us = @ + t[1]]
         [] t[2] = "frac" -> [sec |-> r.sec + t[1] \div 1000000, us |-> r.us + (t[1] % 1000000)]
DurationLaw(d) == Parse(Format(d)) = d
=============================================================================
