SPECIFICATION TSpec
INVARIANT Verdict
INVARIANT XferVerdict
CHECK_DEADLOCK FALSE
CONSTANTS
 Cfg = 0
 Reqs = {}
 InitVals = "zero"
 MaxDepth = 0
