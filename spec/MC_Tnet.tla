------------------------------ MODULE MC_Tnet -------------------------------
(* Bounded value domain for C20: atoms with payload octets that look like length prefixes, colons and type codes,   *)
(* multi-byte text, big and negative integers; lists and dictionaries of <= 2 entries, nested to depth 2 (3 if Deep). *)
EXTENDS Tnet, Json
CONSTANTS Deep

I(neg, ds) == [t |-> "int", neg |-> neg, digits |-> ds]
Atoms ==
  { I(FALSE, <<48>>), I(FALSE, <<55>>), I(TRUE, <<53>>), I(FALSE, <<49, 56, 52, 52, 54, 55, 52, 52, 48, 55, 51, 55, 48, 57, 53, 53, 49, 54, 49, 54>>),
    I(TRUE, <<57, 48, 48, 55, 49, 57, 57, 50, 53, 52, 55, 52, 48, 57, 57, 51>>) } \cup
  { [t |-> "float", txt |-> x] : x \in { <<49, 46, 53>>, <<45, 48, 46, 50, 53>>, <<49, 101, 43, 51, 48, 48>>, <<48, 46, 48>> } } \cup
  { [t |-> "bool", v |-> TRUE], [t |-> "bool", v |-> FALSE], [t |-> "null"] } \cup
  { [t |-> "bytes", b |-> x] : x \in { <<>>, <<97>>, <<49, 58>>, <<44>>, <<49, 50, 58, 97, 44>>, <<35, 93>>, <<48, 58, 126>>, <<0, 255>>,
                                   <<10>>, <<97, 10, 98>> } } \cup              \* (payloads containing the separator a reader may be told to ignore)
  { [t |-> "text", cp |-> x] : x \in { <<>>, <<97>>, <<960>>, <<97, 8364>>, <<36, 44>>, <<233>>, <<99, 97, 102, 233, 255>>,
                                       <<65279, 97>> } }       \* pi, euro, e acute, y diaeresis; text that BEGINS with U+FEFF (no byte order mark: a character)
Keys == { <<107>>, <<97, 49>> }
Lists(S) == { [t |-> "list", xs |-> <<>>] } \cup { [t |-> "list", xs |-> <<a>>] : a \in S } \cup { [t |-> "list", xs |-> <<a, b>>] : a \in S, b \in S }
Dicts(S) == { [t |-> "dict", kv |-> <<>>] } \cup { [t |-> "dict", kv |-> << <<k, a>> >>] : k \in Keys, a \in S }
            \cup { [t |-> "dict", kv |-> << << <<107>>, a >>, << <<97, 49>>, b >> >>] : a \in S, b \in S }
SmallAtoms == { a \in Atoms : a.t \in {"null", "bool"} \/ (a.t = "int" /\ Len(a.digits) = 1) \/ (a.t = "bytes" /\ a.b \in {<<>>, <<49, 58>>, <<44>>})
                              \/ (a.t = "text" /\ a.cp \in {<<960>>, <<233>>}) \/ (a.t = "float" /\ a.txt = <<49, 46, 53>>) }
L1 == Lists(Atoms) \cup Dicts(Atoms)
L1small == Lists(SmallAtoms) \cup Dicts(SmallAtoms)
L2 == Lists({ x \in L1small : Len(Dump(x)) <= 12 }) \cup Dicts({ x \in L1small : Len(Dump(x)) <= 12 })
Values == Atoms \cup L1 \cup (IF Deep THEN L2 ELSE { x \in L2 : (x.t = "list" /\ Len(x.xs) <= 1) \/ (x.t = "dict" /\ Len(x.kv) <= 1) })
Tails == { <<>>, <<48, 58, 126>>, <<57>>, <<58>>, <<49, 58, 97, 44>> }

\* every value in the default encoding; every value containing text also in Latin-1, if it can be written in it
Encs(v) == {"utf-8"} \cup (IF HasText(v) /\ EncodableV("latin-1", v) THEN {"latin-1"} ELSE {}) \cup (IF HasText(v) THEN {"utf-16-le"} ELSE {})
Emit(v, enc) == /\ RoundTrip(v, enc) /\ \A tl \in Tails : RoundTripTail(v, enc, tl)
                /\ PrintT(ToJson([k |-> "tnet", v |-> v, enc |-> enc, b |-> DumpE(v, enc)]))
ASSUME \A v \in Values : \A enc \in Encs(v) : Emit(v, enc)
ASSUME PrintT(ToJson([k |-> "tails", tails |-> Tails]))
VARIABLE dummy
TInit == dummy = 0
TNext == FALSE /\ UNCHANGED dummy
=============================================================================
