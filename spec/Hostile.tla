------------------------------- MODULE Hostile ------------------------------
(***************************************************************************)
(* C08: structure-aware mutation plans.  A valid frame is laid out as a       *)
(* sequence of named parts (every length / count / offset / size field of      *)
(* every nesting level is its own part); a plan picks a part and an operator.  *)
(* TLC enumerates the plans x session points and emits the mutated octets.     *)
(***************************************************************************)
EXTENDS LogixOps, Json

P(name, b) == [n |-> name, b |-> b]
HCfg == [ budget |-> 488,
          tags |-> << [name |-> <<65>>, type |-> "INT", len |-> 3, scalar |-> FALSE, cia |-> <<2, 1, 1>>],
                      [name |-> <<66, 66>>, type |-> "DINT", len |-> 1, scalar |-> TRUE, cia |-> <<2, 1, 2>>] >> ]
Hdr(cmd, len) == << P("hdr.cmd", U16(cmd)), P("hdr.len", U16(len)), P("hdr.sess", <<68, 51, 34, 17>>), P("hdr.status", <<0, 0, 0, 0>>),
                    P("hdr.ctx", <<1, 2, 3, 4, 5, 6, 7, 8>>), P("hdr.opts", <<0, 0, 0, 0>>) >>
RECURSIVE PLen(_)
PLen(ps) == IF ps = <<>> THEN 0 ELSE Len(Head(ps).b) + PLen(Tail(ps))
Bytes(ps) == Concat([ i \in 1 .. Len(ps) |-> ps[i].b ])

\* Write Tag A[1] := 5, 6 inside an Unconnected Send with route path 1/0, inside SendRRData
WriteMsg == << P("msg.svc", <<77>>), P("msg.pathsz", <<3>>), P("msg.sym", <<145, 1, 65, 0>>), P("msg.elem", <<40, 1>>), P("msg.type", U16(195)),
               P("msg.count", U16(2)), P("msg.d1", <<5, 0>>), P("msg.d2", <<6, 0>>) >>
ReadMsg  == << P("msg.svc", <<76>>), P("msg.pathsz", <<2>>), P("msg.sym", <<145, 1, 65, 0>>), P("msg.count", U16(3)) >>
\* a bundle of two members, the first given by its octets (offset table consistent with them), the second the read
BundleOf(m1) == LET m2 == Bytes(ReadMsg) IN
             << P("msp.svc", <<10>>), P("msp.pathsz", <<2>>), P("msp.path", <<32, 2, 36, 1>>), P("msp.count", U16(2)),
                P("msp.off1", U16(6)), P("msp.off2", U16(6 + Len(m1))), P("msp.m1", m1), P("msp.m2", m2) >>
BundleMsg == BundleOf(Bytes(WriteMsg))
UCWrap(msg) == << P("us.svc", <<82>>), P("us.pathsz", <<2>>), P("us.path", <<32, 6, 36, 1>>), P("us.prio", <<5>>), P("us.ticks", <<157>>),
                  P("us.msglen", U16(PLen(msg))) >> \o msg \o (IF PLen(msg) % 2 = 1 THEN << P("us.pad", <<0>>) >> ELSE <<>>)
               \o << P("rp.size", <<1>>), P("rp.rsvd", <<0>>), P("rp.seg", <<1, 0>>) >>
RR(cip) == LET body == << P("sd.iface", <<0, 0, 0, 0>>), P("sd.tmo", U16(5)), P("cpf.count", U16(2)), P("it0.type", U16(0)), P("it0.len", U16(0)),
                          P("it1.type", U16(178)), P("it1.len", U16(PLen(cip))) >> \o cip
           IN Hdr(111, PLen(body)) \o body
RegisterParts == Hdr(101, 4) \o << P("reg.version", U16(1)), P("reg.options", U16(0)) >>
FwdOpenMsg == << P("fo.svc", <<84>>), P("fo.pathsz", <<2>>), P("fo.path", <<32, 6, 36, 1>>), P("fo.prio", <<5>>), P("fo.ticks", <<157>>),
                 P("fo.otid", <<1, 0, 0, 0>>), P("fo.toid", <<2, 0, 0, 0>>), P("fo.serial", U16(1)), P("fo.vendor", U16(4919)),
                 P("fo.oserial", <<120, 86, 52, 18>>), P("fo.mult", <<1, 0, 0, 0>>), P("fo.otrpi", <<64, 66, 15, 0>>), P("fo.otncp", U16(17396)),
                 P("fo.torpi", <<64, 66, 15, 0>>), P("fo.toncp", U16(17396)), P("fo.trigger", <<163>>), P("fo.cpsize", <<3>>),
                 P("fo.cpath", <<1, 0, 32, 2, 36, 1>>) >>
\* Set Attribute Single of the whole attribute 2/1/1 (tag A): 7, 8, 9 -- one part per element
SasMsg == << P("sas.svc", <<16>>), P("sas.pathsz", <<3>>), P("sas.path", <<32, 2, 36, 1, 48, 1>>), P("sas.d1", <<7, 0>>), P("sas.d2", <<8, 0>>),
             P("sas.d3", <<9, 0>>) >>
Bases == [ write |-> RR(UCWrap(WriteMsg)), read |-> RR(ReadMsg), bundle |-> RR(UCWrap(BundleMsg)), register |-> RegisterParts,
           fwdopen |-> RR(FwdOpenMsg), sas |-> RR(SasMsg) ]
BaseNames == {"write", "read", "bundle", "register", "fwdopen", "sas"}
\* the CIP message inside each base frame: mutated on its own and then framed again, so that every enclosing length
\* field is consistent with the mutated message ("reframed" plans: the hostile part is the message, not its envelope)
Inner == [ write |-> WriteMsg, read |-> ReadMsg, bundle |-> BundleMsg, fwdopen |-> FwdOpenMsg, sas |-> SasMsg ]
InnerNames == {"write", "read", "bundle", "fwdopen", "sas"}

Ops == {"zero", "inc", "dec", "max", "drop", "dup", "flip", "cutafter", "cutinside", "insert"}
Mut(b, op) ==
  CASE op = "zero" -> Zeros(Len(b)) [] op = "max" -> Rep(255, Len(b))
    [] op = "inc" -> <<(b[1] + 1) % 256>> \o Tail(b) [] op = "dec" -> <<(b[1] + 255) % 256>> \o Tail(b)
    [] op = "flip" -> <<(b[1] + 128) % 256>> \o Tail(b)
    [] op = "drop" -> <<>> [] op = "dup" -> b \o b [] op = "insert" -> b \o <<0>>
    [] OTHER -> b
\* the mutated octet stream of base frame `ps' with operator op applied to part i
Mutated(ps, i, op) ==
  IF op = "cutafter" THEN Bytes(SubSeq(ps, 1, i))
  ELSE IF op = "cutinside" THEN Bytes(SubSeq(ps, 1, i - 1)) \o SubSeq(ps[i].b, 1, Len(ps[i].b) \div 2)
  ELSE Bytes([ j \in 1 .. Len(ps) |-> IF j = i THEN [ps[j] EXCEPT !.b = Mut(ps[j].b, op)] ELSE ps[j] ])

Reframed(bn, i, op) == LET m == << P("msg.mutated", Mutated(Inner[bn], i, op)) >> IN
                       Bytes(IF bn \in {"write", "bundle"} THEN RR(UCWrap(m)) ELSE RR(m))
\* "member" plans: the hostile part is ONE MEMBER of a bundle -- the write, mutated on its own -- inside a bundle whose offset table and
\* every enclosing length field are consistent with it
Membered(i, op) == Bytes(RR(UCWrap(BundleOf(Mutated(WriteMsg, i, op)))))
Plans == { [base |-> bn, part |-> i, op |-> op, kind |-> kd] : bn \in BaseNames, op \in Ops, i \in 1 .. 40, kd \in {"frame", "inner", "member"} }
Octets(p) == IF p.kind = "frame" THEN Mutated(Bases[p.base], p.part, p.op) ELSE IF p.kind = "inner" THEN Reframed(p.base, p.part, p.op)
             ELSE Membered(p.part, p.op)
GoodPlans == { p \in Plans : /\ (p.kind = "frame" => p.part <= Len(Bases[p.base]))
                             /\ (p.kind = "inner" => p.base \in InnerNames /\ p.part <= Len(Inner[p.base]))
                             /\ (p.kind = "member" => p.base = "bundle" /\ p.part <= Len(WriteMsg))
                             /\ Octets(p) # Bytes(Bases[p.base]) }
\* a member write that was cut inside a field or an element, or before its first data element, is not a write request at all (whatever
\* complete elements precede the cut): the bundle's other member is a read, so NOTHING may change -- however the bundle is answered.
\* (A cut after a whole element leaves a Write Tag with fewer values than it declares: LogixOps lets that be carried out.)
\* Likewise a write whose request path SIZE is zeroed (the path octets still follow it): a request without a path addresses nothing.
RawPartName(p) == IF p.kind = "frame" THEN Bases[p.base][p.part].n ELSE IF p.kind = "inner" THEN Inner[p.base][p.part].n ELSE WriteMsg[p.part].n
NoWriteAtAll(p) == \/ p.kind = "member" /\ (p.op = "cutinside" \/ (p.op = "cutafter" /\ WriteMsg[p.part].n \notin {"msg.d1", "msg.d2"}))
                   \/ p.op = "zero" /\ RawPartName(p) = "msg.pathsz" /\ (p.kind = "member" \/ p.base = "write")
\* does the mutated stream still contain the complete, untouched CIP write message of its base frame?
Contains(big, small) == \E off \in 0 .. (Len(big) - Len(small)) : SubSeq(big, off + 1, off + Len(small)) = small
WriteIntact(p) == \/ p.base \in {"write", "bundle"} /\ Contains(Octets(p), Bytes(WriteMsg))
                  \/ p.base = "sas" /\ Contains(Octets(p), Bytes(SasMsg))
\* that message as a request of the model (LogixOps), and the memory [[1, 2, 3], [4]] after it
WReq(p) == IF p.base = "sas"
           THEN [svc |-> "sas", tag |-> 1, mode |-> "cia", idx |-> 0 - 1, n |-> 0, off |-> 0, typ |-> "INT", vals |-> <<>>, bytes |-> <<7, 0, 8, 0, 9, 0>>, ms |-> <<>>]
           ELSE [svc |-> "write", tag |-> 1, mode |-> "sym", idx |-> 1, n |-> 2, off |-> 0, typ |-> "INT", vals |-> << <<5, 0>>, <<6, 0>> >>, bytes |-> <<>>, ms |-> <<>>]
HMem0 == << << <<1, 0>>, <<2, 0>>, <<3, 0>> >>, << <<4, 0, 0, 0>> >> >>
WExp(p) == IF ~WriteIntact(p) THEN <<>> ELSE (CHOOSE o \in SingleOuts(HCfg, HMem0, WReq(p)) : o.k = "ok").mem
PartName(p) == IF p.kind = "frame" THEN Bases[p.base][p.part].n ELSE IF p.kind = "inner" THEN "reframed:" \o Inner[p.base][p.part].n
               ELSE "member:" \o WriteMsg[p.part].n
EmitPlan(p) == PrintT(ToJson([k |-> "plan", base |-> p.base, part |-> PartName(p), op |-> p.op, b |-> Octets(p), valid |-> Bytes(Bases[p.base]),
                              intact |-> WriteIntact(p), wexp |-> WExp(p), wreq |-> WReq(p), strict |-> NoWriteAtAll(p)]))
WExpOf(r) == (CHOOSE o \in SingleOuts(HCfg, HMem0, r) : o.k = "ok").mem
ASSUME PrintT(ToJson([k |-> "cfg", cfg |-> HCfg, mem0 |-> HMem0,
                      wmsgs |-> << [b |-> Bytes(WriteMsg), wexp |-> WExpOf(WReq([base |-> "write"])), wreq |-> WReq([base |-> "write"])],
                                   [b |-> Bytes(SasMsg), wexp |-> WExpOf(WReq([base |-> "sas"])), wreq |-> WReq([base |-> "sas"])] >>, register |-> Bytes(RegisterParts), read |-> Bytes(Bases["read"])]))
VARIABLE plan
HInit == plan \in GoodPlans
HNext == FALSE /\ UNCHANGED plan
HEmit == EmitPlan(plan)
=============================================================================
