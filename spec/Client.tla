------------------------------- MODULE Client -------------------------------
(***************************************************************************)
(* The cpppo client as seen by an application (properties C12, C13): a list   *)
(* of operations goes in, one result per operation comes out, in order,       *)
(* whatever the pipelining depth, the bundling limit or fragment mode; under   *)
(* a connection fault the results are a correct prefix and the shortfall is    *)
(* signalled by an error.  The device is the tag model of LogixOps.           *)
(* Also: the textual form of an operation (OpText).                           *)
(***************************************************************************)
EXTENDS LogixOps

\* ---- text of an operation: NAME[a-b]=(TYPE)v,v  /  @c/i/a[a-b]
Chr(c) == CASE c = 65 -> "A" [] c = 66 -> "B" [] c = 67 -> "C" [] c = 68 -> "D" [] c = 84 -> "T" [] c = 85 -> "U" [] c = 87 -> "W" [] c = 88 -> "X" [] c = 98 -> "b"
            [] c = 95 -> "_" [] c = 51 -> "3" [] c = 97 -> "a" [] c = 46 -> "." [] OTHER -> "?"
RECURSIVE Str(_)
Str(cs) == IF cs = <<>> THEN "" ELSE Chr(cs[1]) \o Str(Tail(cs))
Num(v) == IF Len(v) = 1 THEN v[1] ELSE v[1] + 256 * v[2]           \* small non-negative values only
\* the text of one value of type t: decimal integers, decimal fractions for the floating point values of the model, quoted strings
ValText(t, v) == IF t \in {"SSTRING", "STRING"} THEN "\"" \o Str(v) \o "\""
                 ELSE IF t = "LREAL" THEN (CASE v = <<0, 0, 0, 0, 0, 0, 4, 64>> -> "2.5" [] v = <<154, 153, 153, 153, 153, 153, 185, 63>> -> "0.1" [] OTHER -> "0.0")
                 ELSE IF t = "REAL" THEN (CASE v = <<0, 0, 32, 64>> -> "2.5" [] OTHER -> "0.0")
                 ELSE ToString(Num(v))
RECURSIVE Csv(_, _)
Csv(t, vs) == IF Len(vs) = 1 THEN ValText(t, vs[1]) ELSE ValText(t, vs[1]) \o "," \o Csv(t, Tail(vs))
OpText(C, r) ==
  LET T == C.tags[r.tag]
      base == IF r.mode = "sym" THEN Str(T.name) ELSE "@" \o ToString(T.cia[1]) \o "/" \o ToString(T.cia[2]) \o "/" \o ToString(T.cia[3])
      \* a single element is [i]; writes always spell the range [a-b] (fragment mode requires it)
      range == IF r.idx < 0 THEN "" ELSE IF r.n = 1 /\ r.svc = "read" THEN "[" \o ToString(r.idx) \o "]"
               ELSE "[" \o ToString(r.idx) \o "-" \o ToString(r.idx + r.n - 1) \o "]"
      \* an explicit byte offset "+off" makes the operation one fragment of a Read / Write Tag Fragmented transfer
      offs == IF r.svc \in {"readf", "writef"} THEN "+" \o ToString(r.off) ELSE ""
  IN IF r.svc \in {"read", "readf", "gas"} THEN base \o range \o offs ELSE base \o range \o offs \o "=(" \o r.typ \o ")" \o Csv(r.typ, r.vals)
\* Other spellings of the same operation (reads by numeric address): numbers in another base, a term given as a JSON object, the element as
\* a fourth term, the count as '*n' instead of a range
HexDigit(d) == CASE d = 0 -> "0" [] d = 1 -> "1" [] d = 2 -> "2" [] d = 3 -> "3" [] d = 4 -> "4" [] d = 5 -> "5" [] d = 6 -> "6" [] d = 7 -> "7"
                 [] d = 8 -> "8" [] d = 9 -> "9" [] d = 10 -> "a" [] d = 11 -> "B" [] d = 12 -> "c" [] d = 13 -> "D" [] d = 14 -> "e" [] d = 15 -> "F"
Hex(n) == "0x" \o (IF n >= 16 THEN HexDigit(n \div 16) ELSE "") \o HexDigit(n % 16)
RECURSIVE Bin(_)
Bin(n) == IF n < 2 THEN ToString(n) ELSE Bin(n \div 2) \o ToString(n % 2)
AltTexts(C, r) ==
  LET T == C.tags[r.tag]  c == T.cia[1]  i == T.cia[2]  a == T.cia[3]
      rng == IF r.idx < 0 THEN "" ELSE IF r.n = 1 THEN "[" \o ToString(r.idx) \o "]" ELSE "[" \o ToString(r.idx) \o "-" \o ToString(r.idx + r.n - 1) \o "]"
  IN IF r.svc # "read" \/ r.mode # "cia" THEN {}
     ELSE { "@" \o Hex(c) \o "/" \o ToString(i) \o "/" \o ToString(a) \o rng,
            "@" \o ToString(c) \o "/0b" \o Bin(i) \o "/0o" \o ToString(a) \o rng,                                \* (attribute numbers < 8 here)
            "@{\"class\": " \o ToString(c) \o "}/" \o ToString(i) \o "/{\"attribute\": " \o ToString(a) \o "}" \o rng }
          \cup (IF r.idx < 0 THEN {} ELSE
                { "@" \o ToString(c) \o "/" \o ToString(i) \o "/" \o ToString(a) \o "/" \o ToString(r.idx) \o (IF r.n = 1 THEN "" ELSE "*" \o ToString(r.n)),
                  "@" \o ToString(c) \o "/" \o ToString(i) \o "/" \o ToString(a) \o "[" \o ToString(r.idx) \o "]*" \o ToString(r.n) })
\* Multi-level tags: components joined by '.', each optionally indexed; only the LAST component's index / range is the operation's
\* element and count -- an inner component's index is part of the path and nothing else.  A component is <<name text, first, last>>
\* (first < 0: not indexed; last > first: a range, on the last component only).
CompText(c) == c[1] \o (IF c[2] < 0 THEN "" ELSE "[" \o ToString(c[2]) \o (IF c[3] > c[2] THEN "-" \o ToString(c[3]) ELSE "") \o "]")
RECURSIVE DotText(_)
DotText(cs) == IF Len(cs) = 1 THEN CompText(cs[1]) ELSE CompText(cs[1]) \o "." \o DotText(Tail(cs))
RECURSIVE DotSegs(_)
DotSegs(cs) == IF cs = <<>> THEN <<>> ELSE << [k |-> "sym", s |-> cs[1][1]] >> \o (IF cs[1][2] < 0 THEN <<>> ELSE << [k |-> "elem", v |-> cs[1][2]] >>) \o DotSegs(Tail(cs))
DotElm(cs) == cs[Len(cs)][2]                                                       \* -1: none
DotCnt(cs) == LET c == cs[Len(cs)] IN IF c[2] >= 0 /\ c[3] > c[2] THEN c[3] - c[2] + 1 ELSE 0 - 1     \* -1: none
\* A write spelled WITHOUT a cast: integer values denote the default integer type of the entry point that parses the text --
\* INT for tag operations (client.parse_operations), SINT for attribute operations (get_attribute.attribute_operations)
DefaultIntType(r) == IF r.svc = "sas" THEN "SINT" ELSE "INT"
PlainText(C, r) ==
  LET T == C.tags[r.tag]
      base == IF r.mode = "sym" THEN Str(T.name) ELSE "@" \o ToString(T.cia[1]) \o "/" \o ToString(T.cia[2]) \o "/" \o ToString(T.cia[3])
      range == IF r.idx < 0 THEN "" ELSE "[" \o ToString(r.idx) \o "-" \o ToString(r.idx + r.n - 1) \o "]"
  IN base \o range \o "=" \o Csv(r.typ, r.vals)

\* ---- what the application must observe
\* fragment mode issues the fragmented services (offset 0)
Frag(r, frag) == IF ~frag THEN r ELSE [r EXCEPT !.svc = IF r.svc = "read" THEN "readf" ELSE IF r.svc = "write" THEN "writef" ELSE r.svc]
\* does observation ob = [st, ext, vals] (vals: the elements read, <<>> for writes / failures) express outcome o of request r?
Fits(r, o, ob) ==
  CASE o.k = "ok" -> ob.st = o.st /\ ob.ext = <<>> /\ ob.ok /\ (IF r.svc \in {"read", "readf"} THEN ob.vals = o.data ELSE ob.vals = <<>>)
    [] o.k = "okbytes" -> ob.st = 0 /\ ob.ok /\ ob.bytes = o.data              \* Get Attribute Single: the attribute's octets
    \* (an API that does not expose the extended status reports it as <<65535>>: then only the status is compared)
    [] o.k = "err" -> ob.st = o.st /\ (ob.ext = o.ext \/ ob.ext = <<65535>>) /\ ~ob.ok
    \* (exact5: the observer states that this failure must be the documented "path destination unknown" status -- an unknown tag
    \*  read over a connected session, C14)
    [] o.k = "anyfail" -> ob.st # 0 /\ ~ob.ok /\ (ob.exact5 => ob.st = 5)
RECURSIVE Explains(_, _, _, _, _)
\* the observations are what issuing the requests one after the other on the tag model yields
Explains(C, m, rs, obs, frag) ==
  IF obs = <<>> THEN TRUE
  ELSE rs # <<>> /\ \E o \in SingleOuts(C, m, Frag(Head(rs), frag)) :
          Fits(Frag(Head(rs), frag), o, Head(obs)) /\ Explains(C, o.mem, Tail(rs), Tail(obs), frag)

\* C12: one result per operation, in order, equal to the sequential results
Complete(C, m0, rs, obs, frag) == Len(obs) = Len(rs) /\ Explains(C, m0, rs, obs, frag)
\* C13: under a fault the results are a correct prefix, never beyond what was completely received, and a shortfall is an error
UnderFault(C, m0, rs, obs, frag, delivered, raised) ==
  /\ Len(obs) <= Len(rs) /\ Explains(C, m0, rs, obs, frag)
  /\ Len(obs) <= delivered
  /\ (Len(obs) < Len(rs) => raised)
=============================================================================
