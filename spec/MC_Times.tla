------------------------------ MODULE MC_Times ------------------------------
(* C17 on the integer model: the order law on every pair of instants of a window around a second boundary, the zone law  *)
(* for forward and backward transitions of 30 / 60 / 120 minutes, the duration law on a product of boundary sets;      *)
(* emits the duration domain and the instant pairs for replay.                                                          *)
EXTENDS Times, Json
Window == 0 .. 2600           \* microseconds around x.999 .. x+1.0016
Pairs == { <<a, b>> : a \in { x \in Window : x % 100 \in {0, 1, 49, 50, 51, 99} }, b \in { x \in Window : x % 100 \in {0, 1, 49, 50, 51, 99} } }
OrderOK == \A p \in Pairs : (IsTie(p[1], 3) \/ IsTie(p[2], 3)) \/ OrderLaw(p[1], p[2])
Zones == { [at |-> 100000, off0 |-> o0, off1 |-> o1] : o0 \in {0 - 25200, 3600, 37800}, o1 \in {0 - 21600, 0 - 25200, 7200, 39600, 3600} }
ZoneOK == \A z \in Zones : \A d \in {0 - 7201, 0 - 7200, 0 - 3601, 0 - 3600, 0 - 1800, 0 - 1, 0, 1, 1799, 1800, 3599, 3600, 3601, 7200, 7201} : ZoneLaw(z, z.at + d)
Durations == { [sec |-> y * YR + w * WK + d * DY + h * HR + m * MN + s, us |-> us] :
                 y \in {0, 1, 3}, w \in {0, 1, 51}, d \in {0, 1, 6}, h \in {0, 1, 23}, m \in {0, 1, 59}, s \in {0, 1, 59},
                 us \in {0, 1, 999, 1000, 1001, 500000, 999000, 999999} }
DurOK == \A d \in Durations : DurationLaw(d)
ASSUME OrderOK /\ ZoneOK /\ DurOK
ASSUME \A d \in { x \in Durations : x.sec % 7 \in {0, 1, 3} } : PrintT(ToJson([k |-> "dur", sec |-> d.sec, us |-> d.us, toks |-> Format(d)]))
ASSUME \A p \in { q \in Pairs : ~IsTie(q[1], 3) /\ ~IsTie(q[2], 3) /\ (q[1] + q[2]) % 7 = 0 } :
          PrintT(ToJson([k |-> "pair", a |-> p[1], b |-> p[2], ra |-> Render3(p[1]), rb |-> Render3(p[2]),
                         lt |-> Less(p[1], p[2]), gt |-> Less(p[2], p[1])]))
VARIABLE dummy
TInit == dummy = 0
TNext == FALSE /\ UNCHANGED dummy
=============================================================================
