SPECIFICATION Spec
CHECK_DEADLOCK FALSE
INVARIANT DesignPost
INVARIANT Pending
PROPERTY Terminates
CONSTANTS
 Addrs = {1, 2, 3, 5, 9998, 9999, 10000, 10001}
 Counts = {1, 2, 4, 7}
 MaxN = 3
 Reaches = {0, 1, 2, 3}
 Limits = {0, 1, 2, 5}
