----------------------------- MODULE LoaderTrace ----------------------------
(* Conformance of the real loader to Loader.tla (the algorithm as coded).  Same trace lines as HistoryTrace; the scenario's  *)
(* files carry the unparsable records the harness inserted ("bad": true).                                                 *)
EXTENDS Loader, Json, IOUtils, TLCExt
Traces == ndJsonDeserialize(IOEnv.TRACE_FILE)
VARIABLES S, t, l
tvars == <<S, t, l>>
SC == Traces[t].sc
Ev == Traces[t].ev
TInit == t \in 1 .. Len(Traces) /\ l = 1 /\ S = LInit0
Rec(x) == [ts |-> x[1], reg |-> x[2], val |-> x[3]]
Same(a, b) == a.ts = b.ts /\ a.reg = b.reg /\ a.val = b.val
TStep == /\ l <= Len(Ev) /\ l' = l + 1 /\ UNCHANGED t
         /\ LET e == Ev[l]
                got == [ i \in 1 .. Len(e.events) |-> Rec(e.events[i]) ]
                res == Load(SC, S, e.now, e.limit)
            IN /\ Len(res.ev) = Len(got) /\ \A i \in 1 .. Len(got) : Same(res.ev[i], got[i])
               /\ e.alive = (res.s.st < COMPLETE)
               /\ S' = res.s
TSpec == TInit /\ [][TStep]_tvars
Verdict == (l <= Len(Ev) /\ ~ENABLED TStep) => PrintT(ToJson([tid |-> t, at |-> l, why |-> "differs-from-the-coded-algorithm"]))
=============================================================================
