INIT EmitInit
NEXT EmitNext
CONSTRAINT EmitInputs
CHECK_DEADLOCK FALSE
CONSTANTS
 Addrs = {1, 2, 3, 5, 9998, 9999, 10000, 10001}
 Counts = {1, 2, 4, 7}
 MaxN = 3
 Reaches = {0}
 Limits = {0}
