----------------------------- MODULE HostileTrace ---------------------------
(* C08 contract on sessions fed mutated / random octets (virtual socket around the real server):                      *)
(*   {"ev": [events as in ServerTrace], "before": memory, "after": memory, "others": b, "finished": b,                 *)
(*    "wexp": [memory after a write whose complete message the mutated octets still contain], "octets": all input octets,  *)
(*    "strict": the specification knows that the input holds no write request at all (Hostile!NoWriteAtAll): nothing may change} *)
(* For any octet sequence the server finishes, replies with well-framed frames or closes, changes a tag only through   *)
(* an acknowledged write, and keeps serving other sessions.                                                            *)
EXTENDS CIPWire, Json, IOUtils, TLCExt, TLC
HCmd(b) == LE(SubSeq(b, 1, 2))     HLen(b) == LE(SubSeq(b, 3, 4))     HStat(b) == SubSeq(b, 9, 12)
WellFramed(b) == Len(b) >= 24 /\ HLen(b) = Len(b) - 24
Traces == ndJsonDeserialize(IOEnv.TRACE_FILE)
VARIABLES t, l, isclosed, acked
hvars == <<t, l, isclosed, acked>>
Ev == Traces[t].ev
\* a reply frame that acknowledges a write-class service with success
AckWrite(b) == /\ WellFramed(b) /\ Len(b) >= 44 /\ HCmd(b) \in {111, 112}
               /\ \E at \in {41, 47} : Len(b) >= at + 3 /\ ( (b[at] \in {205, 211, 144} /\ b[at + 2] = 0)
                                                            \* PERMISSIVE(C08): a bundle that is answered as a whole -- even with a failure
                                                            \* status because a later member was garbage -- may have executed its well-formed
                                                            \* member writes (each a complete, well-formed write request)
                                                            \/ b[at] = 138 )
TInit == t \in 1 .. Len(Traces) /\ l = 1 /\ isclosed = FALSE /\ acked = FALSE
TStep == /\ l <= Len(Ev) /\ l' = l + 1 /\ UNCHANGED t
         /\ LET e == Ev[l] IN
            CASE e.a \in {"recv", "poll", "eof", "proc"} -> ~isclosed /\ UNCHANGED <<isclosed, acked>>
              [] e.a = "send" -> ~isclosed /\ WellFramed(e.b) /\ acked' = (acked \/ AckWrite(e.b)) /\ UNCHANGED isclosed
              [] e.a = "close" -> ~isclosed /\ isclosed' = TRUE /\ UNCHANGED acked
              [] e.a \in {"exc", "conns-left"} -> isclosed /\ UNCHANGED <<isclosed, acked>>
              [] OTHER -> FALSE
TSpec == TInit /\ [][TStep]_hvars
Verdict == (l <= Len(Ev) /\ ~ENABLED TStep) => PrintT(ToJson([tid |-> t, at |-> l, why |-> (IF Ev[l].a = "send" THEN "malformed-reply-frame" ELSE "activity-after-close-or-leftover:" \o Ev[l].a)]))
\* tags are fixed-length arrays: whatever happens, no tag gains or loses elements and every element stays representable
SameShape(a, b) == Len(a) = Len(b) /\ \A i \in 1 .. Len(a) : Len(a[i]) = Len(b[i]) /\ \A k \in 1 .. Len(a[i]) : Len(a[i][k]) = Len(b[i][k])
FinalOK == /\ Traces[t].finished /\ isclosed /\ Traces[t].others /\ SameShape(Traces[t].after, Traces[t].before)
           /\ (Traces[t].strict => Traces[t].after = Traces[t].before)
           /\ (Traces[t].after # Traces[t].before => (acked \/ (\E k \in 1 .. Len(Traces[t].wexp) : Traces[t].after = Traces[t].wexp[k])
                                                    \* PERMISSIVE(C08): a complete write that was carried out although its envelope was damaged
                                                    \/ WrittenFromInput(Traces[t].before, Traces[t].after, Traces[t].octets)))
Final == (l = Len(Ev) + 1 /\ ~FinalOK) =>
   PrintT(ToJson([tid |-> t, at |-> Len(Ev), why |-> (IF ~Traces[t].finished THEN "did-not-finish-in-time" ELSE IF ~isclosed THEN "connection-not-closed"
                       ELSE IF ~Traces[t].others THEN "other-sessions-affected"
                       ELSE IF ~SameShape(Traces[t].after, Traces[t].before) THEN "tag-corrupted-shape-changed" ELSE "tag-changed-without-acknowledged-write")]))
=============================================================================
