------------------------------- MODULE Ranges -------------------------------
(***************************************************************************)
(* Merging and splitting of Modbus register ranges                         *)
(* (cpppo/remote/plc_modbus.py: merge, shatter) -- property C19.           *)
(*                                                                         *)
(* The module holds                                                        *)
(*   - Post / ShatterPost: the post-conditions, written from the statement *)
(*     of the property only (sorted, disjoint, bounded by the transfer     *)
(*     limit, confined to a register bank, covering every requested        *)
(*     register, containing nothing farther than `reach' from a requested  *)
(*     register);                                                          *)
(*   - the sorted sweep as a state machine (one step per input range, as   *)
(*     the generator in the code), checked against Post by TLC for every   *)
(*     input of the bounded domain;                                        *)
(*   - emission of every input of the domain for replay into the code.     *)
(***************************************************************************)
EXTENDS Naturals, Sequences, FiniteSets, TLC, Json

CONSTANTS Addrs,      \* candidate start addresses
          Counts,     \* candidate counts (0 allowed: an empty request)
          MaxN,       \* at most this many ranges in the input
          Reaches,    \* reach values
          Limits      \* limit values; 0 stands for "no limit given"

Max(a, b) == IF a > b THEN a ELSE b
Min(a, b) == IF a < b THEN a ELSE b

Bank(a) == a \div 10000

\* The transfer limit that applies when none is given (coils / discrete inputs vs. registers)
DefaultLimit(a) ==
  IF (1 <= a /\ a <= 9999) \/ (10001 <= a /\ a <= 19999) \/ (100001 <= a /\ a <= 165536)
  THEN 1968 ELSE 123

Applicable(limit, a) == IF limit = 0 THEN DefaultLimit(a) ELSE limit

Regs(r) == { r[1] + k : k \in 0 .. (r[2] - 1) }          \* registers of one (address, count)
Requested(inp) == UNION { Regs(inp[i]) : i \in 1 .. Len(inp) }
Union(out) == UNION { Regs(out[i]) : i \in 1 .. Len(out) }

EffReach(reach) == Max(reach, 1)

------------------------------------------------------------------------------
(* Post-condition of merge: out is what merge(inp, reach, limit) returned. *)

Sorted(out)   == \A i \in 1 .. Len(out), j \in 1 .. Len(out) :
                    i < j => out[i][1] + out[i][2] <= out[j][1]          \* sorted and disjoint
NonEmpty(out) == \A i \in 1 .. Len(out) : out[i][2] >= 1
Bounded(out, limit) == \A i \in 1 .. Len(out) : out[i][2] <= Applicable(limit, out[i][1])
OneBank(out)  == \A i \in 1 .. Len(out) : Bank(out[i][1]) = Bank(out[i][1] + out[i][2] - 1)
Covers(out, inp) == Requested(inp) \subseteq Union(out)
WithinReach(out, inp, reach) ==
   \A r \in Union(out) : \E q \in Requested(inp) :
        /\ Bank(q) = Bank(r)
        /\ (IF r >= q THEN r - q ELSE q - r) <= EffReach(reach)

Post(out, inp, reach, limit) ==
   /\ Sorted(out) /\ NonEmpty(out) /\ Bounded(out, limit) /\ OneBank(out)
   /\ Covers(out, inp) /\ WithinReach(out, inp, reach)

\* An input may contain empty requests (count 0).  They ask for no register; PERMISSIVE(C19): a chain of them can carry a
\* merged range farther than `reach' in design and code alike, so WithinReach is not demanded then -- everything else is,
\* above all: no requested register is dropped.
HasEmpty(inp) == \E k \in 1 .. Len(inp) : inp[k][2] = 0
\* name of the first failing clause (diagnostics for the harness)
PostWhy(out, inp, reach, limit) ==
   IF HasEmpty(inp) THEN
     (IF ~Sorted(out) THEN "Sorted" ELSE IF ~NonEmpty(out) THEN "NonEmpty" ELSE IF ~Bounded(out, limit) THEN "Bounded"
      ELSE IF ~OneBank(out) THEN "OneBank" ELSE IF ~Covers(out, inp) THEN "Covers" ELSE "ok")
   ELSE
   IF ~Sorted(out) THEN "Sorted" ELSE IF ~NonEmpty(out) THEN "NonEmpty"
   ELSE IF ~Bounded(out, limit) THEN "Bounded" ELSE IF ~OneBank(out) THEN "OneBank"
   ELSE IF ~Covers(out, inp) THEN "Covers" ELSE IF ~WithinReach(out, inp, reach) THEN "WithinReach"
   ELSE "ok"

(* Post-condition of shatter: consecutive pieces of at most the limit covering exactly the range *)
ShatterPost(out, a, c, limit) ==
   /\ \A i \in 1 .. Len(out) : out[i][2] >= 1 /\ out[i][2] <= Applicable(limit, a)
   /\ (c = 0 => out = <<>>)
   /\ (c > 0 => /\ Len(out) >= 1 /\ out[1][1] = a
                /\ \A i \in 1 .. (Len(out) - 1) : out[i + 1][1] = out[i][1] + out[i][2]
                /\ out[Len(out)][1] + out[Len(out)][2] = a + c)

------------------------------------------------------------------------------
(* The algorithm as designed: shatter, and the sorted sweep with a running maximum *)

RECURSIVE Shatter(_, _, _)
Shatter(a, c, lim) ==           \* lim > 0
   IF c = 0 THEN <<>>
   ELSE LET t == Min(c, lim) IN <<<<a, t>>>> \o Shatter(a + t, c - t, lim)

ShatterL(a, c, limit) == Shatter(a, c, Applicable(limit, a))

VARIABLES inp, reach, limit, i, base, len, out, pc
vars == <<inp, reach, limit, i, base, len, out, pc>>

RangeSet == { <<a, c>> : a \in Addrs, c \in Counts }
\* inputs confined to one bank, as the property quantifies
Confined(r) == r[2] = 0 \/ Bank(r[1]) = Bank(r[1] + r[2] - 1)
Less(r, s) == r[1] < s[1] \/ (r[1] = s[1] /\ r[2] <= s[2])
\* sorted sequences (the code sorts its input first, so a multiset is the whole input)
SortedInputs ==
   UNION { { s \in [1 .. n -> { r \in RangeSet : Confined(r) }] :
               \A k \in 1 .. (n - 1) : Less(s[k], s[k + 1]) } : n \in 0 .. MaxN }

Init == /\ inp \in SortedInputs /\ reach \in Reaches /\ limit \in Limits
        /\ i = 2 /\ out = <<>>
        /\ IF Len(inp) = 0 THEN base = 0 /\ len = 0 /\ pc = "done"
           ELSE base = inp[1][1] /\ len = inp[1][2] /\ pc = "sweep"

Sweep == /\ pc = "sweep" /\ i <= Len(inp)
         /\ LET r == inp[i] IN
            IF len > 0 /\ Bank(r[1]) = Bank(base) /\ r[1] < base + len + EffReach(reach)
            THEN /\ len' = Max(len, r[1] + r[2] - base)        \* running maximum: nested ranges
                 /\ UNCHANGED <<base, out>>
            ELSE /\ out' = out \o ShatterL(base, len, limit)
                 /\ base' = r[1] /\ len' = r[2]
         /\ i' = i + 1
         /\ UNCHANGED <<inp, reach, limit, pc>>

Flush == /\ pc = "sweep" /\ i > Len(inp)
         /\ out' = out \o ShatterL(base, len, limit)
         /\ pc' = "done"
         /\ UNCHANGED <<inp, reach, limit, i, base, len>>

Next == Sweep \/ Flush
Spec == Init /\ [][Next]_vars /\ WF_vars(Next)

DesignPost == pc = "done" => Post(out, inp, reach, limit)
\* the pending range always covers what was swept into it
Pending == pc = "sweep" =>
             \A k \in 1 .. (i - 1) : Regs(inp[k]) \subseteq (Union(out) \cup Regs(<<base, len>>))
Terminates == <>(pc = "done")

ShatterDesign == \A a \in Addrs, c \in Counts, l \in Limits : ShatterPost(ShatterL(a, c, l), a, c, l)

------------------------------------------------------------------------------
(* Emission of the input domain (one JSON line per input multiset) *)
EmitInit == inp \in SortedInputs /\ reach = 0 /\ limit = 0 /\ i = 0 /\ base = 0 /\ len = 0
            /\ out = <<>> /\ pc = "emit"
EmitNext == FALSE /\ UNCHANGED vars
EmitInputs == PrintT(ToJson([inp |-> inp]))
=============================================================================
