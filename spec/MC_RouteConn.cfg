SPECIFICATION CSpec
CONSTANTS
 Sess = {1, 2, 3}
 MaxReq = 3
 Discipline = "hold"
INVARIANT OwnReply
INVARIANT WireOwned
INVARIANT OneHolder
PROPERTY AllServed
CHECK_DEADLOCK FALSE
