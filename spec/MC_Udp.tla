------------------------------- MODULE MC_Udp -------------------------------
(* Bounded instance of Udp: every sequence of <= MaxGrams datagrams over a small set of good frames and an opaque bad  *)
(* datagram, from two peers; a bad datagram is dropped or answered by an error frame; a good one by any allowed reply. *)
EXTENDS Udp
CONSTANT MaxGrams
UCfg == [ budget |-> 488,
          tags |-> << [name |-> <<65>>, type |-> "INT", len |-> 3, scalar |-> FALSE, cia |-> <<2, 1, 1>>],
                      [name |-> <<66, 66>>, type |-> "DINT", len |-> 1, scalar |-> TRUE, cia |-> <<2, 1, 2>>] >> ]
Rq(svc, tag, idx, n, typ, vals) == [svc |-> svc, tag |-> tag, mode |-> "sym", idx |-> idx, n |-> n, off |-> 0, typ |-> typ,
                                    vals |-> vals, bytes |-> <<>>, ms |-> <<>>]
F(kind, req) == [kind |-> kind, sess |-> <<0, 0, 0, 0>>, ctx |-> <<1, 2, 3, 4, 5, 6, 7, 8>>, wrap |-> "simple", route |-> <<>>, tmo |-> 5, req |-> req]
WriteA == Rq("write", 1, 1, 2, "INT", << <<5, 0>>, <<6, 0>> >>)
ReadA  == Rq("read", 1, 0 - 1, 3, "INT", <<>>)
Good == { F("listidentity", ReadA), F("rr", WriteA), F("rr", ReadA), F("unregister", ReadA) }
Grams == { [kind |-> "good", f |-> f, peer |-> p] : f \in Good, p \in {1, 2} } \cup { [kind |-> "bad", peer |-> p, intact |-> FALSE, b |-> <<>>] : p \in {1, 2} }
VARIABLE sc
mvars == <<uvars, sc>>
MInit == /\ sc \in UNION { { [cfg |-> UCfg, pers |-> [k |-> "any"], mem0 |-> ZeroMemOf(UCfg), grams |-> gs] : gs \in [1 .. k -> Grams] } : k \in 1 .. MaxGrams }
         /\ UInit(sc)
ErrReply == EncEnip(CmdSendRR, <<0, 0, 0, 0>>, 8, <<1, 2, 3, 4, 5, 6, 7, 8>>, 0, <<>>)
MNext == /\ UNCHANGED sc
         /\ \/ Arrive(sc, umem)
            \/ End(sc, umem) /\ cur # 0
            \/ /\ open
               /\ IF IsGood(Gram(sc, cur)) THEN \E b \in RepliesOf(sc, umem, Gram(sc, cur).f) : Reply(sc, b, Gram(sc, cur).peer)
                  ELSE Reply(sc, ErrReply, Gram(sc, cur).peer)
MSpec == MInit /\ [][MNext]_mvars

\* the memory is the fold of the good writes handled so far: bad datagrams and datagrams of other peers never matter
RECURSIVE Fold(_, _)
Fold(m, k) == IF k = 0 THEN m
              ELSE LET g == Gram(sc, k) prev == Fold(m, k - 1) IN
                   IF IsGood(g) /\ g.f.kind = "rr" /\ g.f.req.svc = "write" THEN (CHOOSE o \in SingleOuts(sc.cfg, prev, g.f.req) : o.k = "ok").mem ELSE prev
Handled == IF open THEN cur - 1 ELSE nextg - 1
Independence == umem = Fold(sc.mem0, Handled)
\* every good datagram that requires an answer got exactly one before the next was taken up
NeedsReply(k) == IsGood(Gram(sc, k)) /\ ~Silent(Gram(sc, k).f)
OneReplyEach == replies >= Cardinality({ k \in 1 .. Handled : NeedsReply(k) }) /\ replies <= Handled
NoAck == ~ack
=============================================================================
