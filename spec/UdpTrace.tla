------------------------------ MODULE UdpTrace ------------------------------
(* Validation of runs of the real UDP service (scripted recvfrom around enip_srv_udp) against Udp.                    *)
(* One NDJSON line per run: {"sc": [cfg, pers, mem0, grams: [{kind:"good", f, peer} | {kind:"bad", peer}]],            *)
(*   "ev": [{"a":"dgram","mem":memory when the datagram is taken} {"a":"reply","b":octets,"to":peer} {"a":"end","mem":m}], *)
(*   "finished": the service loop ended in time, "shape": no tag gained or lost elements}                              *)
EXTENDS Udp, Json, IOUtils, TLCExt
Traces == ndJsonDeserialize(IOEnv.TRACE_FILE)
VARIABLES t, l
tvars == <<uvars, t, l>>
SC == Traces[t].sc
Ev == Traces[t].ev
TInit == t \in 1 .. Len(Traces) /\ l = 1 /\ UInit(Traces[t].sc)
TStep == /\ l <= Len(Ev) /\ l' = l + 1 /\ UNCHANGED t
         /\ LET e == Ev[l] IN
            CASE e.a = "dgram" -> Arrive(SC, e.mem)
              [] e.a = "reply" -> Reply(SC, e.b, e.to)
              [] e.a = "end"   -> End(SC, e.mem)
              [] OTHER -> FALSE
TSpec == TInit /\ [][TStep]_tvars
WhyStuck == LET e == Ev[l] IN
   IF e.a = "reply" THEN (IF ~open THEN "reply-without-request" ELSE IF e.to # Gram(SC, cur).peer THEN "reply-to-wrong-peer"
                          ELSE IF IsGood(Gram(SC, cur)) THEN "reply-not-allowed" ELSE "malformed-reply-frame")
   ELSE IF open /\ ~Droppable(Gram(SC, cur)) THEN "well-formed-request-not-answered"
   ELSE IF ~SameShape(e.mem, SC.mem0) THEN "tag-corrupted-shape-changed"
   ELSE "tag-changed-without-acknowledged-write"
Verdict == (l <= Len(Ev) /\ ~ENABLED TStep) => PrintT(ToJson([tid |-> t, at |-> l, why |-> WhyStuck]))
Final == (l = Len(Ev) + 1) =>
           (IF Traces[t].finished /\ Traces[t].shape /\ Ev[Len(Ev)].a = "end" THEN TRUE
            ELSE PrintT(ToJson([tid |-> t, at |-> Len(Ev), why |-> (IF ~Traces[t].finished THEN "did-not-finish-in-time"
                                  ELSE IF ~Traces[t].shape THEN "tag-corrupted-shape-changed" ELSE "run-not-ended")])))
=============================================================================
