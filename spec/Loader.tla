------------------------------- MODULE Loader -------------------------------
(***************************************************************************)
(* The history loader AS THE CODE BEHAVES (cpppo/history/files.py:            *)
(* reader.open, loader.load) -- an implementation-shaped companion of         *)
(* History.tla (which states what the property demands).  It exists to        *)
(* identify the known deviation F4 exactly: a replay that History rejects is   *)
(* the known finding only if it is precisely the behaviour of this algorithm   *)
(* (file chosen by the timestamp of its first record; the `strict' guard       *)
(* against re-opening the same file released by the first record handled       *)
(* after a pause); any other rejected replay is a new violation.               *)
(*                                                                         *)
(* Loader state: [st, f, p, adv, lts, strict, future]                         *)
(*   st     INITIAL/SWITCHING/STREAMING/EXHAUSTED/AWAITING/COMPLETE (numbers   *)
(*          as in the code), f = open file (0: none, -1: the end-of-history    *)
(*          generator), p = index of the record the generator holds,          *)
(*   adv    the generator's cached replay time + look-ahead,                   *)
(*   lts    timestamp of the last accepted record (NoTs: none yet),            *)
(*   strict the re-open guard, future = timestamps delivered, not yet applied. *)
(* Files may contain records flagged bad (unparsable payload, valid time).    *)
(***************************************************************************)
EXTENDS History

INITIAL == 0  SWITCHING == 1  STREAMING == 2  EXHAUSTED == 3  AWAITING == 4  COMPLETE == 5
NoTs == 0 - 1000000
LInit0 == [st |-> INITIAL, f |-> 0, p |-> 1, adv |-> NoTs, lts |-> NoTs, strict |-> FALSE, future |-> <<>>]

First(SC, i) == SC.files[i][1].ts
\* reader.open: files are scanned newest first
\*   before: the newest file whose first timestamp is <= (strict: <) the target; the oldest file if there is none
OpenBefore(SC, target, strict) ==
  LET ok == { i \in 1 .. Len(SC.files) : IF strict THEN First(SC, i) < target ELSE First(SC, i) <= target } IN
  IF ok = {} THEN 1 ELSE CHOOSE i \in ok : \A j \in ok : j <= i
\*   after: the oldest of the newest files whose first timestamps are all >= (strict: >) the target; 0: history exhausted
Passes(SC, i, target, strict) == IF strict THEN First(SC, i) > target ELSE First(SC, i) >= target
OpenAfter(SC, target, strict) ==
  LET K == Len(SC.files)
      run == { i \in 1 .. K : \A j \in i .. K : Passes(SC, j, target, strict) } IN
  IF run = {} THEN 0 ELSE CHOOSE i \in run : \A j \in run : i <= j

RECURSIVE DropDue(_, _)
DropDue(fut, cur) == IF fut # <<>> /\ Head(fut) <= cur THEN DropDue(Tail(fut), cur) ELSE fut

\* loader.load( limit ) at wall time `now': [s |-> state after, ev |-> events returned]
RECURSIVE Outer(_, _, _, _, _, _), Inner(_, _, _, _, _)
AfterFor(SC, S, now, limit, ev) ==
  LET S1 == IF S.st = STREAMING THEN [S EXCEPT !.st = SWITCHING] ELSE S IN Outer(SC, S1, now, limit, ev, FALSE)
Inner(SC, S, now, limit, ev) ==
  LET h == HClock(SC, now) IN
  IF S.f = 0 - 1
  THEN \* end-of-history generator: apply what is due; complete when nothing is left
       LET fut == DropDue(S.future, h) IN
       AfterFor(SC, [S EXCEPT !.future = fut, !.st = IF fut = <<>> THEN COMPLETE ELSE EXHAUSTED,
                              !.strict = IF S.strict /\ (S.lts = NoTs \/ h > S.lts) THEN FALSE ELSE S.strict], now, limit, ev)
  ELSE IF S.p > Len(SC.files[S.f]) THEN AfterFor(SC, S, now, limit, ev)            \* the file is exhausted
  ELSE LET r == SC.files[S.f][S.p]
           adv1 == IF r.ts > S.adv THEN h + SC.lookahead ELSE S.adv IN
       IF r.ts > adv1
       THEN AfterFor(SC, [S EXCEPT !.adv = adv1, !.st = AWAITING], now, limit, ev)          \* next record lies in the future
       ELSE LET strict1 == IF S.strict /\ S.st \notin {INITIAL, SWITCHING} /\ (S.lts = NoTs \/ r.ts > S.lts) THEN FALSE ELSE S.strict
                st1 == IF S.st \in {INITIAL, SWITCHING, AWAITING} THEN STREAMING ELSE S.st
                S1 == [S EXCEPT !.adv = adv1, !.strict = strict1, !.st = st1, !.p = S.p + 1] IN
            IF r.bad THEN Inner(SC, S1, now, limit, ev)
            ELSE LET take == S.lts = NoTs \/ r.ts >= S.lts                                   \* out-of-order records are ignored
                     ev1 == IF take THEN Append(ev, r) ELSE ev
                     S2 == [S1 EXCEPT !.lts = IF take THEN r.ts ELSE S.lts, !.st = STREAMING,
                                      !.future = DropDue(IF take THEN Append(S.future, r.ts) ELSE S.future, adv1 - SC.lookahead)] IN
                 IF limit # 0 /\ Len(ev1) >= limit THEN [s |-> S2, ev |-> ev1] ELSE Inner(SC, S2, now, limit, ev1)
Outer(SC, S, now, limit, ev, first) ==
  IF ~(S.st <= STREAMING \/ first) THEN [s |-> S, ev |-> ev]
  ELSE IF S.st \in {INITIAL, SWITCHING}
       THEN LET target == IF S.lts = NoTs THEN HClock(SC, now) ELSE S.lts
                w == IF S.st = INITIAL THEN OpenBefore(SC, target, S.strict) ELSE OpenAfter(SC, target, S.strict) IN
            IF w = 0 THEN [s |-> [S EXCEPT !.st = EXHAUSTED, !.f = 0 - 1], ev |-> ev]      \* HistoryExhausted: drained by later calls
            ELSE Inner(SC, [S EXCEPT !.f = w, !.p = 1, !.adv = HClock(SC, now) + SC.lookahead, !.strict = TRUE], now, limit, ev)
       ELSE Inner(SC, S, now, limit, ev)
Load(SC, S, now, limit) == IF S.st >= COMPLETE THEN [s |-> S, ev |-> <<>>] ELSE Outer(SC, S, now, limit, <<>>, TRUE)
=============================================================================
