----------------------------- MODULE RouteTrace -----------------------------
(* Request routing to a second device ([UCMM] Route): sessions of the routing simulator whose Unconnected Send requests carry     *)
(* a route path that begins with the mapped port/link are forwarded to a remote simulator and answered with ITS reply; all others  *)
(* are served locally.  One NDJSON line per run:                                                                                  *)
(*   {"cfg1","mem1","cfg2","mem2": local / remote configuration and initial memory, "via": the mapped route segment,              *)
(*    "ev": [{"f": request frame, "b": reply octets (<<>>: none), "hostile": the request's time-out was shorter than the link's    *)
(*            latency}, ...] in the order the replies were awaited, "end1": local memory afterwards}                           *)
(* Every reply is one the tag model of the addressed device allows for exactly that request (never another request's data); a     *)
(* request that timed out on the link may be answered by an error frame or not at all; memories change only as the replies say.    *)
EXTENDS ServerOps, Json, IOUtils, TLCExt
Traces == ndJsonDeserialize(IOEnv.TRACE_FILE)
VARIABLES t, l, m1, m2
rvars == <<t, l, m1, m2>>
T == Traces[t]
Ev == T.ev
Routed(f) == f.kind = "rr" /\ f.wrap = "ucsend" /\ f.route # <<>> /\ f.route[1] = T.via
SC1 == [cfg |-> T.cfg1, pers |-> [k |-> "any"]]
SC2 == [cfg |-> T.cfg2, pers |-> [k |-> "any"]]
TInit == t \in 1 .. Len(Traces) /\ l = 1 /\ m1 = Traces[t].mem1 /\ m2 = Traces[t].mem2
TStep == /\ l <= Len(Ev) /\ l' = l + 1 /\ UNCHANGED t
         /\ LET e == Ev[l] IN
            IF e.b = <<>> THEN e.hostile /\ UNCHANGED <<m1, m2>>
            ELSE IF e.hostile /\ ErrFrame(e.f, e.b) THEN UNCHANGED <<m1, m2>>
            ELSE IF Routed(e.f) THEN (\E o \in ReplyOutcomes(SC2, m2, e.f, e.b) : m2' = o.mem) /\ UNCHANGED m1
            ELSE (\E o \in ReplyOutcomes(SC1, m1, e.f, e.b) : m1' = o.mem) /\ UNCHANGED m2
TSpec == TInit /\ [][TStep]_rvars
Verdict == (l <= Len(Ev) /\ ~ENABLED TStep) =>
             PrintT(ToJson([tid |-> t, at |-> l, why |-> (IF Ev[l].b = <<>> THEN "request-not-answered" ELSE "reply-not-allowed-for-this-request")]))
\* (the remote device's memory is not observed directly: its reads are judged against the model's m2)
Final == (l = Len(Ev) + 1) => (IF m1 = T.end1 THEN TRUE ELSE PrintT(ToJson([tid |-> t, at |-> Len(Ev), why |-> "memory-differs"])))
=============================================================================
