SPECIFICATION TSpec
INVARIANT Verdict
INVARIANT Final
CHECK_DEADLOCK FALSE
