---------------------------- MODULE HistoryTrace ----------------------------
(* Validation of replays by the real loader (virtual clock) against History.                                       *)
(* One NDJSON line per run: {"sc": scenario, "ev": [{"now": wall time, "limit": n, "events": [[ts, reg, val],...],  *)
(*                            "alive": loader still evaluates true}, ...], "values": final register map as [[reg,val]..]} *)
EXTENDS History, Json, IOUtils, TLCExt

Traces == ndJsonDeserialize(IOEnv.TRACE_FILE)
VARIABLES now, delivered, out, t, l
tvars == <<now, delivered, out, t, l>>
SC == Traces[t].sc
Ev == Traces[t].ev
TInit == t \in 1 .. Len(Traces) /\ l = 1 /\ now = 0 /\ delivered = 0 /\ out = <<>>

Rec(x) == [ts |-> x[1], reg |-> x[2], val |-> x[3]]
TStep == /\ l <= Len(Ev) /\ l' = l + 1 /\ UNCHANGED t
         /\ LET e == Ev[l]
                got == [ i \in 1 .. Len(e.events) |-> Rec(e.events[i]) ]
            IN /\ now' = e.now
               /\ got = LoadMust(SC, delivered, e.now, e.limit)          \* exactly-once, order, not early, not late
               /\ out' = got /\ delivered' = delivered + Len(got)
               \* a loader that reports completion has delivered everything
               /\ (~e.alive => delivered' = Len(Replay(SC)))
TSpec == TInit /\ [][TStep]_tvars

Why == LET e == Ev[l]  got == [ i \in 1 .. Len(e.events) |-> Rec(e.events[i]) ]  must == LoadMust(SC, delivered, e.now, e.limit) IN
       IF got # must THEN
          (IF Len(got) > Len(must) /\ SubSeq(got, 1, Len(must)) = must THEN
               (IF \E i \in 1 .. Len(got) : got[i].ts > HClock(SC, e.now) + SC.lookahead THEN "delivered-early" ELSE "delivered-again-or-unexpected")
           ELSE IF Len(got) < Len(must) /\ SubSeq(must, 1, Len(got)) = got THEN "delivered-late-or-lost"
           ELSE "wrong-record-or-order")
       ELSE "reported-complete-before-all-delivered"
Verdict == (l <= Len(Ev) /\ ~ENABLED TStep) => PrintT(ToJson([tid |-> t, at |-> l, why |-> Why]))
\* end of run: the driver kept loading well past the last timestamp: everything delivered, loader complete, final map right
FinalOK == /\ delivered = Len(Replay(SC)) /\ ~Ev[Len(Ev)].alive
           /\ LET fm == FinalMap(SC) IN { <<x[1], x[2]>> : x \in { Traces[t].values[i] : i \in 1 .. Len(Traces[t].values) } }
                                       = { <<r, fm[r]>> : r \in DOMAIN fm }
Final == (l = Len(Ev) + 1 /\ ~FinalOK) =>
           PrintT(ToJson([tid |-> t, at |-> Len(Ev), why |-> (IF delivered # Len(Replay(SC)) THEN "records-lost"
                                                              ELSE IF Ev[Len(Ev)].alive THEN "never-completes" ELSE "final-register-map-wrong")]))
=============================================================================
