----------------------------- MODULE Concurrency ----------------------------
(***************************************************************************)
(* Concurrent sessions against the shared simulator (property C09).          *)
(* Abstract model: every session issues its requests in order; a request is  *)
(* invoked, takes effect at ONE atomic step on the shared tag memory (a       *)
(* bundle: one atomic step per member, in member order), then its reply is    *)
(* returned to the session that issued it.  The effect of a request and its   *)
(* reply are those of LogixOps (the same tag model as C03 / C05 / C07).       *)
(* Any execution of this model is, by construction, equivalent to a single    *)
(* sequential order of all (member) requests respecting each session's own    *)
(* order; conformance checking (ConcurrencyTrace) decides whether a recorded  *)
(* history of the real, multi-threaded server is such an execution.           *)
(***************************************************************************)
EXTENDS LogixOps

\* members of a request: itself, or the members of a bundle
Members(r) == IF r.svc = "multi" THEN r.ms ELSE <<r>>
\* Connected messaging: a session may open (Forward Open) and close (Forward Close) connections, named by the connection
\* serial IT chose -- two sessions may well choose the same serial -- and send requests over them.  The connection table is
\* shared state like the tags; a session's connections are its own: nothing another session does opens or closes them.
\* (svc "end": the session ends -- its connection is closed by the peer; whatever connections it still has open are closed with it)
IsConn(r) == r.svc \in {"fwdopen", "fwdclose", "end"}

CONSTANTS CC,        \* configuration (tags, budget)
          Mem0,      \* initial memory
          Ops        \* Ops[s] = sequence of requests of session s
VARIABLES cmem,      \* shared tag memory
          pc,        \* pc[s] = index of the request session s is working on (Len+1 = finished)
          phase,     \* phase[s] \in {"idle", "busy"}
          done,      \* done[s] = members of the current request that have taken effect
          got,       \* got[s] = outcomes of those members
          ctab       \* open connections: pairs <<session, connection serial>>
cvars == <<cmem, pc, phase, done, got, ctab>>
Sessions == DOMAIN Ops

CInit == /\ cmem = Mem0 /\ pc = [s \in Sessions |-> 1] /\ phase = [s \in Sessions |-> "idle"]
         /\ done = [s \in Sessions |-> 0] /\ got = [s \in Sessions |-> <<>>] /\ ctab = {}
Invoke(s) == /\ phase[s] = "idle" /\ pc[s] <= Len(Ops[s])
             /\ phase' = [phase EXCEPT ![s] = "busy"] /\ done' = [done EXCEPT ![s] = 0] /\ got' = [got EXCEPT ![s] = <<>>]
             /\ UNCHANGED <<cmem, pc, ctab>>
Effect(s) == /\ phase[s] = "busy"
             /\ LET ms == Members(Ops[s][pc[s]]) IN
                /\ done[s] < Len(ms)
                /\ IF IsConn(ms[done[s] + 1])
                   THEN /\ ctab' = IF ms[done[s] + 1].svc = "fwdopen" THEN ctab \cup { <<s, ms[done[s] + 1].fo.serial>> }
                                   ELSE IF ms[done[s] + 1].svc = "end" THEN { c \in ctab : c[1] # s }
                                   ELSE ctab \ { <<s, ms[done[s] + 1].fo.serial>> }
                        /\ got' = [got EXCEPT ![s] = Append(@, [k |-> "conn", st |-> 0, ext |-> <<>>, data |-> <<>>, mem |-> cmem])]
                        /\ UNCHANGED cmem
                   ELSE /\ \E o \in SingleOuts(CC, cmem, ms[done[s] + 1]) :
                              /\ cmem' = o.mem /\ got' = [got EXCEPT ![s] = Append(@, o)]
                        /\ UNCHANGED ctab
                /\ done' = [done EXCEPT ![s] = @ + 1]
             /\ UNCHANGED <<pc, phase>>
Respond(s) == /\ phase[s] = "busy" /\ done[s] = Len(Members(Ops[s][pc[s]]))
              /\ phase' = [phase EXCEPT ![s] = "idle"] /\ pc' = [pc EXCEPT ![s] = @ + 1]
              /\ UNCHANGED <<cmem, done, got, ctab>>
CNext == \E s \in Sessions : Invoke(s) \/ Effect(s) \/ Respond(s)
CSpec == CInit /\ [][CNext]_cvars /\ WF_cvars(CNext)

\* ---- properties of the design
\* a write to elements only one session writes is never lost: checked through the final memory in MC_Concurrency
AllDone == \A s \in Sessions : pc[s] = Len(Ops[s]) + 1
Terminates == <>AllDone
\* C09 isolation: a session's connections are opened and closed by its own requests only
OwnConnections == [][ \A s \in Sessions : { c \in ctab : c[1] = s } # { c \in ctab' : c[1] = s } => (phase[s] = "busy" /\ done'[s] = done[s] + 1) ]_cvars
TagsWellFormed == \A t \in 1 .. Len(CC.tags) : Len(cmem[t]) = CC.tags[t].len
=============================================================================
