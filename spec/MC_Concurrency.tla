---------------------------- MODULE MC_Concurrency --------------------------
(* Scenarios for C09: 2 or 3 sessions issuing reads / writes / a bundle against shared and private element ranges of one    *)
(* 8-element tag and a second tag; the abstract model is explored exhaustively; scenarios (with the frames each session     *)
(* sends, encoded by the spec) and thread schedules are emitted for the forced-schedule replay on the real code.           *)
EXTENDS Concurrency, ServerOps, Json

CONSTANTS Which
KCfg == [ budget |-> 488,
          tags |-> << [name |-> <<84>>, type |-> "INT", len |-> 8, scalar |-> FALSE, cia |-> <<2, 1, 1>>],
                      [name |-> <<85>>, type |-> "DINT", len |-> 2, scalar |-> FALSE, cia |-> <<2, 1, 2>>] >> ]
KMem0 == ZeroMemOf(KCfg)
Rq(svc, tag, idx, n, typ, vals) == [svc |-> svc, tag |-> tag, mode |-> "sym", idx |-> idx, n |-> n, off |-> 0, typ |-> typ,
                                    vals |-> vals, bytes |-> <<>>, ms |-> <<>>]
V(x) == <<x, 0>>
WAll(x)  == Rq("write", 1, 0, 8, "INT", [ i \in 1 .. 8 |-> V(x) ])          \* all eight elements to the same value
\* the same write carried in a narrower, compatible element type (SINT values into the INT tag)
WAllX(x) == Rq("write", 1, 0, 8, "SINT", [ i \in 1 .. 8 |-> <<x>> ])
RAll     == Rq("read", 1, 0, 8, "INT", <<>>)
WLow(x)  == Rq("write", 1, 0, 4, "INT", [ i \in 1 .. 4 |-> V(x + i) ])       \* private range [0,4)
WHigh(x) == Rq("write", 1, 4, 4, "INT", [ i \in 1 .. 4 |-> V(x + i) ])       \* private range [4,8)
RU       == Rq("read", 2, 0, 2, "DINT", <<>>)
WU       == Rq("write", 2, 0, 2, "DINT", << <<1, 2, 3, 4>>, <<5, 6, 7, 8>> >>)
\* the generic attribute services on the same storage: Get Attribute Single of the whole tag, Get Attribute List on its object
GAS1 == [Rq("gas", 1, 0 - 1, 0, "INT", <<>>) EXCEPT !.mode = "cia"]
GAL1 == [Rq("gal", 1, 0 - 1, 0, "INT", <<>>) EXCEPT !.mode = "cia"] @@ [attrs |-> <<1>>]
\* connected messaging: both sessions open a connection with the SAME connection serial 7 (their choice to make), use it, one closes
KSide(id, type) == [id |-> id, rpi |-> <<64, 66, 15, 0>>, size |-> 500, variable |-> 1, priority |-> 0, type |-> type, redundant |-> 0]
KFO(s) == [prio |-> 5, ticks |-> 157, ot |-> KSide(<<17, 0, 0, s>>, 2), to |-> KSide(<<9, 8, 7, s>>, 2),
           serial |-> 7, vendor |-> 4919, oserial |-> <<120, 86, 52, s>>, mult |-> 1, trigger |-> 163,
           cpath |-> << [k |-> "port", p |-> 1, l |-> 0], [k |-> "class", v |-> 2], [k |-> "inst", v |-> 1] >>]
Open(s)  == [svc |-> "fwdopen", fo |-> KFO(s), ms |-> <<>>]
Shut(s)  == [svc |-> "fwdclose", fo |-> KFO(s), ms |-> <<>>]
End      == [svc |-> "end", ms |-> <<>>]                                     \* the peer ends the session without closing its connections
Via(s, r) == r @@ [cid |-> <<17, 0, 0, s>>]                                 \* a request sent over the session's connection
SasAll(x) == [Rq("sas", 1, 0 - 1, 0, "INT", <<>>) EXCEPT !.mode = "cia", !.bytes = Concat([ i \in 1 .. 8 |-> V(x) ])]      \* Set Attribute Single of all eight
Bundle(ms) == [svc |-> "multi", tag |-> 0, mode |-> "sym", idx |-> 0 - 1, n |-> 0, off |-> 0, typ |-> "INT", vals |-> <<>>, bytes |-> <<>>, ms |-> ms]

KOps == CASE Which = "torn"    -> << <<WAll(7)>>, <<RAll>> >>
          [] Which = "private" -> << <<WLow(10), RAll>>, <<WHigh(20), RAll>> >>
          [] Which = "bundle"  -> << <<Bundle(<<WLow(30), RAll, WU>>)>>, <<RAll, WHigh(40)>> >>
          [] Which = "three"   -> << <<WAll(1)>>, <<WAll(2)>>, <<RAll, RU>> >>
          [] Which = "mixed"   -> << <<WLow(50), Bundle(<<RAll, WHigh(60)>>)>>, <<WAll(9), RAll>> >>
          [] Which = "conn"    -> << <<Open(1), Via(1, WLow(70)), Shut(1)>>, <<Open(2), Via(2, RAll), Via(2, WHigh(80))>>, <<Open(3), End>> >>
          [] Which = "xtype"   -> << <<WAllX(7), WAllX(8)>>, <<RAll, RAll>> >>
          [] Which = "attr"    -> << <<WAll(7), SasAll(8)>>, <<GAS1, GAL1, RAll>> >>

\* private ranges keep the last value their only writer wrote (C09 "no lost private write"), at the end of every execution
PrivateKept ==
  AllDone => CASE Which = "private" -> cmem[1] = [ i \in 1 .. 8 |-> IF i <= 4 THEN V(10 + i) ELSE V(20 + (i - 4)) ]
               [] Which = "bundle"  -> cmem[1] = [ i \in 1 .. 8 |-> IF i <= 4 THEN V(30 + i) ELSE V(40 + (i - 4)) ]
               [] Which = "conn"    -> cmem[1] = [ i \in 1 .. 8 |-> IF i <= 4 THEN V(70 + i) ELSE V(80 + (i - 4)) ] /\ ctab = { <<2, 7>> }
               [] OTHER -> TRUE
\* a multi-element read never observes part of a multi-element write (all-equal writes => all-equal reads)
NoTornRead == \A s \in Sessions : \A i \in 1 .. Len(got[s]) :
                 /\ (got[s][i].k = "ok" /\ Len(got[s][i].data) = 8 /\ Which \in {"torn", "three", "xtype", "attr"}) => \A a, b \in 1 .. 8 : got[s][i].data[a] = got[s][i].data[b]
                 \* the attribute's octets (the last 16 of the reply data: eight 16-bit elements) are those of ONE write
                 /\ (got[s][i].k = "okbytes" /\ Which = "attr") =>
                       LET d == got[s][i].data  n == Len(d) IN \A a, b \in 0 .. 7 : d[n - 15 + 2 * a] = d[n - 15 + 2 * b]

\* ---- emission: the scenario with each session's request frames, and the thread schedules
Frame(s, r) == IF r.svc = "end" THEN [kind |-> "end"]
               ELSE IF IsConn(r) THEN [kind |-> r.svc, sess |-> <<s, 0, 0, 0>>, ctx |-> <<s, 1, 2, 3, 4, 5, 6, 7>>, wrap |-> "simple", route |-> <<>>, tmo |-> 5,
                                  req |-> r, fo |-> r.fo]
               ELSE IF "cid" \in DOMAIN r THEN [kind |-> "unit", sess |-> <<s, 0, 0, 0>>, ctx |-> <<s, 1, 2, 3, 4, 5, 6, 7>>, wrap |-> "simple", route |-> <<>>,
                                                tmo |-> 0, req |-> r, cid |-> r.cid, seq |-> s]
               ELSE [kind |-> "rr", sess |-> <<s, 0, 0, 0>>, ctx |-> <<s, 1, 2, 3, 4, 5, 6, 7>>, wrap |-> "ucsend",
                     route |-> << [k |-> "port", p |-> 1, l |-> 0] >>, tmo |-> 5, req |-> r]
ASSUME PrintT(ToJson([k |-> "scenario", which |-> Which, cfg |-> KCfg, mem0 |-> KMem0,
                      ops |-> [ s \in 1 .. Len(KOps) |-> [ i \in 1 .. Len(KOps[s]) |->
                                 [r |-> KOps[s][i], kind |-> Frame(s, KOps[s][i]).kind,
                                  fb |-> IF KOps[s][i].svc = "end" THEN <<>> ELSE FrameBytes(KCfg, Frame(s, KOps[s][i]))] ] ]]))
\* thread schedules: session `f' runs `a' scheduling points, then session `g' runs `b' points (99 = to completion), then the rest
Schedules == { <<f, a, g, b>> : f \in 1 .. Len(KOps), a \in 0 .. 80, g \in 1 .. Len(KOps), b \in (1 .. 16) \cup {99} }
ASSUME PrintT(ToJson([k |-> "schedules", s |-> { x \in Schedules : x[1] # x[3] }]))
=============================================================================
