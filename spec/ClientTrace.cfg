INIT TInit
NEXT TNext
INVARIANT Verdict
CHECK_DEADLOCK FALSE
