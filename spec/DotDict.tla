------------------------------ MODULE DotDict -------------------------------
(***************************************************************************)
(* cpppo.dotdict as a tree of nested mappings addressed by dotted paths      *)
(* (property C16).                                                           *)
(*                                                                         *)
(* Abstract state: the FLAT view of the tree -- a set of entries            *)
(*     [p |-> path, v |-> value]                                             *)
(* one per leaf, where a path is a sequence of segments <<k, i>> (k = key    *)
(* number, i = list index or -1 for a plain name) and the value is a leaf    *)
(* integer (>= 1), 0 for an EMPTY level (a mapping without entries) or -1    *)
(* for an opaque empty list.  Interior levels are implicit: they are the     *)
(* proper prefixes of entry paths.  This is exactly what key iteration is    *)
(* required to list, so "iteration = the tree" holds by construction and     *)
(* becomes a conformance obligation on the implementation.                   *)
(*                                                                         *)
(* A textual key is a sequence of tokens joined by '.'; the empty token      *)
(* (written <<0, 0>>) arises from a leading dot or from '..' and backs up    *)
(* one level (dropped at the root).                                          *)
(***************************************************************************)
EXTENDS Naturals, Integers, Sequences, FiniteSets, TLC

CONSTANTS KeyNames,      \* sequence of key names, e.g. <<"a", "b", "l", "keys">>
          Reserved       \* set of key numbers that are reserved method names

UP == <<0, 0>>

IsPrefix(p, q) == Len(p) <= Len(q) /\ SubSeq(q, 1, Len(p)) = p
Strict(p, q)   == Len(p) < Len(q) /\ IsPrefix(p, q)
DropN(q, n)    == SubSeq(q, n + 1, Len(q))

\* ---- textual keys
RECURSIVE Norm(_, _)
\* resolve empty tokens: each backs up one already collected segment (none at the root)
Norm(tokens, acc) ==
  IF tokens = <<>> THEN acc
  ELSE IF Head(tokens) = UP THEN Norm(Tail(tokens), IF acc = <<>> THEN acc ELSE SubSeq(acc, 1, Len(acc) - 1))
  ELSE Norm(Tail(tokens), Append(acc, Head(tokens)))
Resolve(tokens) == Norm(tokens, <<>>)

TokText(tk) == IF tk = UP THEN "" ELSE IF tk[2] < 0 THEN KeyNames[tk[1]] ELSE KeyNames[tk[1]] \o "[" \o ToString(tk[2]) \o "]"
RECURSIVE JoinT(_)
JoinT(tokens) == IF Len(tokens) = 1 THEN TokText(tokens[1]) ELSE TokText(tokens[1]) \o "." \o JoinT(Tail(tokens))
\* a key that ENDS in '..' ('a.b..' = the parent level of a.b): the final empty token is written with both its dots
Join(tokens) == JoinT(tokens) \o (IF tokens[Len(tokens)] = UP THEN "." ELSE "")

\* ---- the tree
\* The last segment of a path may name a list by its plain name (d['l'] is the whole list l[0], l[1], ...):
\* a plain final segment <<k, -1>> also matches entry segments <<k, i>>.
Loose(s, t) == s = t \/ (s[2] < 0 /\ s[1] = t[1])
AtOrBelow(p, q) == /\ Len(p) <= Len(q) /\ Len(p) >= 1
                   /\ SubSeq(q, 1, Len(p) - 1) = SubSeq(p, 1, Len(p) - 1)
                   /\ Loose(p[Len(p)], q[Len(p)])
Under(S, p)    == { e \in S : AtOrBelow(p, e.p) }                  \* entries at or below p
Contains(S, p) == p # <<>> /\ Under(S, p) # {}
IsLeafAt(S, p) == \E e \in S : e.p = p /\ e.v # 0                  \* a value (not a level) stored exactly at p
IsListAt(S, p) == p # <<>> /\ p[Len(p)][2] < 0 /\ \E e \in Under(S, p) : e.p[Len(p)][2] >= 0
\* the sub-tree at p, relative to p (for a list addressed by name: relative to its parent, keeping the name[i] segment)
Sub(S, p)      == IF IsListAt(S, p) THEN { [p |-> DropN(e.p, Len(p) - 1), v |-> e.v] : e \in Under(S, p) }
                  ELSE { [p |-> DropN(e.p, Len(p)), v |-> e.v] : e \in { x \in Under(S, p) : x.p # p } }
\* length of the list named k under parent path q (number of distinct indices), 0 if none
ListLen(S, q, k) == Cardinality({ e.p[Len(q) + 1][2] : e \in { x \in S : Strict(q, x.p)
                                                                     /\ x.p[Len(q) + 1][1] = k /\ x.p[Len(q) + 1][2] >= 0 } })

\* a lookup result: [ok, leaf, v, sub]
Fail       == [ok |-> FALSE, leaf |-> FALSE, v |-> 0, sub |-> {}]
Lookup(S, p) ==
  IF ~Contains(S, p) THEN Fail
  ELSE IF IsLeafAt(S, p) THEN [ok |-> TRUE, leaf |-> TRUE, v |-> (CHOOSE e \in S : e.p = p).v, sub |-> {}]
  ELSE [ok |-> TRUE, leaf |-> FALSE, v |-> 0, sub |-> Sub(S, p)]

\* ---- values that can be assigned: a leaf, a mapping (set of relative entries; {} = empty mapping), a list of mappings
Graft(p, val) ==                                                     \* entries created by storing val at p
  IF val.k = "leaf" THEN { [p |-> p, v |-> val.v] }
  ELSE IF val.k = "map" THEN (IF val.ents = {} THEN { [p |-> p, v |-> 0] } ELSE { [p |-> p \o e.p, v |-> e.v] : e \in val.ents })
  ELSE IF val.elems = <<>> THEN { [p |-> p, v |-> 0 - 1] }
  ELSE LET q == SubSeq(p, 1, Len(p) - 1)  k == p[Len(p)][1] IN
       UNION { (IF val.elems[i] = {} THEN { [p |-> Append(q, <<k, i - 1>>), v |-> 0] }
                ELSE { [p |-> Append(q, <<k, i - 1>>) \o e.p, v |-> e.v] : e \in val.elems[i] }) : i \in 1 .. Len(val.elems) }

\* removing the sub-tree at p leaves its parent level in place (empty if it has no other member)
Prune(S, p) ==
  LET rest == S \ Under(S, p)
      q == SubSeq(p, 1, Len(p) - 1)
  IN IF q # <<>> /\ Under(rest, q) = {} THEN rest \cup { [p |-> q, v |-> 0] } ELSE rest

\* Can a value be stored at p?  Every proper prefix must be a level (existing or creatable by plain names);
\* indexed segments must address existing list elements; the final name must not be reserved.
Settable(S, p) ==
  /\ p # <<>>
  /\ \A n \in 1 .. (Len(p) - 1) : ~IsLeafAt(S, SubSeq(p, 1, n))
  /\ \A n \in 1 .. Len(p) : p[n][2] >= 0 => p[n][2] < ListLen(S, SubSeq(p, 1, n - 1), p[n][1])
  /\ \A n \in 1 .. Len(p) : p[n][2] < 0 => ListLen(S, SubSeq(p, 1, n - 1), p[n][1]) = 0 \/ n = Len(p)
  /\ p[Len(p)][1] \notin Reserved

\* storing at p replaces whatever was there; the empty-level marker of every ancestor disappears
SetAt(S, p, val) ==
  LET kept == { e \in S : ~AtOrBelow(p, e.p) /\ ~(e.v = 0 /\ Strict(e.p, p)) } IN kept \cup Graft(p, val)

----------------------------------------------------------------------------
(* Operations.  Result record: [ok |-> did it succeed, res |-> lookup result or Fail]                   *)
(* PERMISSIVE(C16): where the statement does not say (e.g. list index out of range) `ok' may be "any".  *)

HasBadIndex(S, p) == \E n \in 1 .. Len(p) : p[n][2] >= 0 /\ p[n][2] >= ListLen(S, SubSeq(p, 1, n - 1), p[n][1])

OpGet(S, p)  == [S |-> S, ok |-> Lookup(S, p).ok, res |-> Lookup(S, p)]
OpIn(S, p)   == [S |-> S, ok |-> Lookup(S, p).ok, res |-> Fail]
OpSet(S, p, val) == IF Settable(S, p) THEN [S |-> SetAt(S, p, val), ok |-> TRUE, res |-> Fail]
                    ELSE [S |-> S, ok |-> FALSE, res |-> Fail]
\* PERMISSIVE(C16): a refused assignment may already have created (empty) levels for a prefix of its path --
\* the statement only says it is refused
EmptyMap == [k |-> "map", ents |-> {}]
RefusedStates(S, p) ==
  {S} \cup { SetAt(S, SubSeq(p, 1, n), EmptyMap) : n \in { m \in 1 .. (Len(p) - 1) :
                    ~Contains(S, SubSeq(p, 1, m)) /\ Settable(S, SubSeq(p, 1, m)) /\ \A j \in 1 .. m : p[j][2] < 0 } }
OpDel(S, p) ==
  LET r == Lookup(S, p) IN
  IF ~r.ok THEN [S |-> S, ok |-> FALSE, res |-> Fail]
  ELSE IF IsListAt(S, p) THEN [S |-> Prune(S, p), ok |-> TRUE, res |-> Fail]         \* a list is a value, not a level
  ELSE IF ~r.leaf /\ r.sub # {} THEN [S |-> S, ok |-> FALSE, res |-> Fail]        \* non-empty level: refused
  ELSE [S |-> Prune(S, p), ok |-> TRUE, res |-> Fail]
OpPop(S, p) ==
  LET r == Lookup(S, p) IN
  IF ~r.ok THEN [S |-> S, ok |-> FALSE, res |-> Fail]
  ELSE [S |-> Prune(S, p), ok |-> TRUE, res |-> r]
OpSetDefault(S, p, val) ==
  IF Lookup(S, p).ok THEN [S |-> S, ok |-> TRUE, res |-> Lookup(S, p)]
  ELSE IF Settable(S, p) THEN LET S2 == SetAt(S, p, val) IN [S |-> S2, ok |-> TRUE, res |-> Lookup(S2, p)]
  ELSE [S |-> S, ok |-> FALSE, res |-> Fail]

\* ---- well-formedness of the abstract state
WF(S) ==
  /\ \A e \in S, f \in S : e # f => ~IsPrefix(e.p, f.p)                     \* no value above another entry
  /\ \A e \in S : e.p # <<>>
  /\ \A e \in S : \A n \in 1 .. Len(e.p) :
        e.p[n][2] >= 0 => \A j \in 0 .. e.p[n][2] : Contains(S, Append(SubSeq(e.p, 1, n - 1), <<e.p[n][1], j>>))
=============================================================================
