------------------------------- MODULE History ------------------------------
(***************************************************************************)
(* History replay (cpppo/history/files.py: logger, reader, loader) --        *)
(* property C18.                                                             *)
(* A scenario SC is                                                         *)
(*   [files |-> << file, ... >>  oldest first; a file is a sequence of       *)
(*                records [ts |-> integer time, reg |-> register, val |-> v], *)
(*    start |-> historical time the replay starts at,                        *)
(*    factor, lookahead |-> speed factor and look-ahead (integers)]          *)
(* Time is integer seconds; the replay clock at wall time `now' (0 at the     *)
(* first load) is  hclock = start + now * factor.                            *)
(* Written from the statement: every record of the replayable history is     *)
(* delivered exactly once, in order, never before hclock + lookahead has      *)
(* reached its timestamp, no later than the first load after it has (a load   *)
(* limited to n events may leave the rest for the next load); at completion   *)
(* the register map equals the last logged value of each register.           *)
(***************************************************************************)
EXTENDS Naturals, Integers, Sequences, FiniteSets, TLC

HClock(SC, now) == SC.start + now * SC.factor

\* The file the replay starts in: the newest file whose first record is at or before the starting time
\* (older files are by design not replayed); the oldest file if there is none.
StartFile(SC) ==
  LET ok == { i \in 1 .. Len(SC.files) : SC.files[i][1].ts <= SC.start } IN
  IF ok = {} THEN 1 ELSE CHOOSE i \in ok : \A j \in ok : j <= i

RECURSIVE Flatten(_, _)
Flatten(files, i) == IF i > Len(files) THEN <<>> ELSE files[i] \o Flatten(files, i + 1)
\* the replayable records in order
Replay(SC) == Flatten(SC.files, StartFile(SC))

\* number of leading replayable records that are due at replay time h (timestamps never decrease)
RECURSIVE DueCount(_, _, _)
DueCount(rs, limit, k) == IF k < Len(rs) /\ rs[k + 1].ts <= limit THEN DueCount(rs, limit, k + 1) ELSE k

\* what a load at wall time `now', with k records already delivered, must return (limit 0 = unlimited)
LoadMust(SC, k, now, limit) ==
  LET rs == Replay(SC)
      due == DueCount(rs, HClock(SC, now) + SC.lookahead, 0)
      upto == IF limit = 0 \/ due - k <= limit THEN due ELSE k + limit
  IN IF due <= k THEN <<>> ELSE SubSeq(rs, k + 1, upto)

\* the register map after all replayable records up to replay time h have taken effect
RECURSIVE Apply(_, _)
Apply(rs, m) == IF rs = <<>> THEN m
                ELSE Apply(Tail(rs), [ r \in DOMAIN m \cup {Head(rs).reg} |-> IF r = Head(rs).reg THEN Head(rs).val ELSE m[r] ])
FinalMap(SC) == Apply(Replay(SC), <<>>)

=============================================================================
