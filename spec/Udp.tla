-------------------------------- MODULE Udp ---------------------------------
(***************************************************************************)
(* The UDP service of the EtherNet/IP simulator (enip_srv_udp): every         *)
(* datagram is one request, handled on its own.  A datagram that is a         *)
(* complete well-formed frame ("good") is answered by exactly one reply        *)
(* datagram to its sender, allowed by ServerOps!ReplyOutcomes in the current   *)
(* memory -- whatever datagrams (hostile, truncated, oversized, from other     *)
(* peers) came before it.  Any other datagram ("bad") is dropped or answered   *)
(* by one well-framed frame, and leaves the tags alone unless that answer      *)
(* acknowledges a write (C08, C06 for datagrams).                              *)
(***************************************************************************)
EXTENDS ServerOps

VARIABLES umem,    \* device memory
          cur,     \* index of the datagram taken up last (0: none yet)
          open,    \* that datagram has not been answered (yet)
          nextg,   \* index of the next datagram to arrive
          ack,     \* the answer to a bad datagram acknowledged a write: the memory may have changed
          replies  \* number of replies sent
uvars == <<umem, cur, open, nextg, ack, replies>>

Gram(SC, i) == SC.grams[i]
IsGood(g) == g.kind = "good"
\* a datagram that may go unanswered: anything that is not a well-formed request, and Unregister / unsupported commands
Droppable(g) == IF IsGood(g) THEN Silent(g.f) ELSE TRUE

UInit(SC) == umem = SC.mem0 /\ cur = 0 /\ open = FALSE /\ nextg = 1 /\ ack = FALSE /\ replies = 0

\* PERMISSIVE(C08): a bad datagram whose octets still contain a complete, well-formed write message (`intact': the mutation
\* touched only framing fields around it) may have performed exactly that write (the datagram's wreq), whatever it was answered
IntactWrite(SC, m) == /\ cur # 0 /\ ~IsGood(Gram(SC, cur)) /\ Gram(SC, cur).intact
                      /\ \E o \in SingleOuts(SC.cfg, umem, Gram(SC, cur).wreq) : o.k = "ok" /\ m = o.mem
\* the memory observed when the handling of the previous datagram is over: exactly the model's, unless an acknowledged
\* write hidden in a bad datagram explains a change
\* tags are fixed-length arrays of fixed-size elements, whatever arrives
SameShape(a, b) == Len(a) = Len(b) /\ \A i \in 1 .. Len(a) : Len(a[i]) = Len(b[i]) /\ \A k \in 1 .. Len(a[i]) : Len(a[i][k]) = Len(b[i][k])
Settled(SC, m) == /\ (open => Droppable(Gram(SC, cur)))
                  /\ SameShape(m, SC.mem0)
                  /\ (m = umem \/ ack \/ IntactWrite(SC, m)
                      \/ (IF cur # 0 /\ m # umem THEN ~IsGood(Gram(SC, cur)) /\ WrittenFromInput(umem, m, Gram(SC, cur).b) ELSE FALSE))      \* PERMISSIVE(C08), as HostileTrace

Arrive(SC, m) == /\ nextg <= Len(SC.grams) /\ Settled(SC, m)
                 /\ umem' = m /\ cur' = nextg /\ open' = TRUE /\ nextg' = nextg + 1 /\ ack' = FALSE /\ UNCHANGED replies

Reply(SC, b, to) ==
   /\ open /\ to = Gram(SC, cur).peer
   /\ IF IsGood(Gram(SC, cur))
      THEN \E o \in ReplyOutcomes(SC, umem, Gram(SC, cur).f, b) : umem' = o.mem /\ ack' = FALSE
      ELSE WellFramed(b) /\ ack' = AckWrite(b) /\ UNCHANGED umem
   /\ open' = FALSE /\ replies' = replies + 1 /\ UNCHANGED <<nextg, cur>>

End(SC, m) == /\ nextg = Len(SC.grams) + 1 /\ Settled(SC, m) /\ umem' = m /\ open' = FALSE /\ ack' = FALSE
              /\ cur' = 0 /\ UNCHANGED <<nextg, replies>>
=============================================================================
