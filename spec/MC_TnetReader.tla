---------------------------- MODULE MC_TnetReader ---------------------------
(* Streams of two messages the streaming reader supports (byte strings -- containing the separator --, integers, null,  *)
(* multi-byte text, text beginning with U+FEFF), with and without separators (one or several symbols) the reader is   *)
(* told to ignore; every schedule of <= 3 chunks                                                                      *)
(* and <= 2 receive timeouts.                                                                                           *)
EXTENDS TnetReader, FiniteSetsExt
By(x) == [t |-> "bytes", b |-> x]
Msgs == { By(<<97, 10, 98>>), By(<<10>>), By(<<10, 97>>), [t |-> "int", neg |-> FALSE, digits |-> <<55>>], [t |-> "null"], [t |-> "text", cp |-> <<960>>], [t |-> "text", cp |-> <<65279, 97>>] }
MCStreams == { [msgs |-> <<a, b>>, sep |-> sp[1], ignore |-> sp[2]] : a \in Msgs, b \in Msgs, sp \in { << <<>>, {} >>, << <<>>, {10} >>, << <<10>>, {10} >>,
                                                                                               << <<13, 10>>, {10, 13} >>, << <<10, 10, 10>>, {10} >> } }     \* several separator symbols in a row
=============================================================================
