------------------------------- MODULE Bytes --------------------------------
(***************************************************************************)
(* Octet-level helpers shared by all wire specifications.                   *)
(* A byte string is a sequence of 0..255.  Integers wider than 31 bits      *)
(* never appear as TLC integers: they are sequences of 16-bit limbs, least  *)
(* significant first.                                                       *)
(***************************************************************************)
EXTENDS Naturals, Sequences

Byte == 0 .. 255

U8(v)  == << v % 256 >>
U16(v) == << v % 256, (v \div 256) % 256 >>
\* 32-bit from two 16-bit limbs <<lo, hi>>
U32L(l) == U16(l[1]) \o U16(l[2])
\* 32-bit value that fits a TLC integer (< 2^31)
U32(v) == << v % 256, (v \div 256) % 256, (v \div 65536) % 256, (v \div 16777216) % 256 >>
\* 64-bit from four limbs
U64L(l) == U16(l[1]) \o U16(l[2]) \o U16(l[3]) \o U16(l[4])

\* little-endian decode of up to 3 bytes plus a 4th below 128 (fits TLC integers)
RECURSIVE LE(_)
LE(b) == IF b = <<>> THEN 0 ELSE b[1] + 256 * LE(Tail(b))

Rep(x, n) == [ i \in 1 .. n |-> x ]
Zeros(n)  == Rep(0, n)

RECURSIVE Concat(_)
Concat(ss) == IF ss = <<>> THEN <<>> ELSE Head(ss) \o Concat(Tail(ss))

PadEven(s) == IF Len(s) % 2 = 1 THEN s \o <<0>> ELSE s

Max2(a, b) == IF a > b THEN a ELSE b
Min2(a, b) == IF a < b THEN a ELSE b
CeilDiv(a, b) == (a + b - 1) \div b

Take(s, n) == SubSeq(s, 1, Min2(n, Len(s)))
Drop(s, n) == SubSeq(s, n + 1, Len(s))
IsPrefixOf(p, s) == Len(p) <= Len(s) /\ SubSeq(s, 1, Len(p)) = p
=============================================================================
