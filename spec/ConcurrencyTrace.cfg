SPECIFICATION TSpec
CONSTRAINT Reach
POSTCONDITION Accepted
CHECK_DEADLOCK FALSE
