------------------------------- MODULE Regex --------------------------------
(***************************************************************************)
(* Regular expressions with Brzozowski derivatives (property C11).           *)
(* Symbols are small integers; an expression is a record                    *)
(*   [k |-> "empty"] (no sentence)   [k |-> "eps"]   [k |-> "chr", c]         *)
(*   [k |-> "any"]   [k |-> "cls", s]   [k |-> "ncls", s]                     *)
(*   [k |-> "cat", l, r]   [k |-> "alt", l, r]   [k |-> "star", x]            *)
(*   [k |-> "plus", x]   [k |-> "opt", x]   [k |-> "rep", x, m, n]            *)
(* Two independent semantics: derivatives (Deriv / Nullable) and direct      *)
(* membership by splitting (Matches); TLC checks that they agree.            *)
(***************************************************************************)
EXTENDS Naturals, Sequences, FiniteSets, TLC

CONSTANT Sigma            \* the alphabet (set of symbols)

Empty == [k |-> "empty"]
Eps   == [k |-> "eps"]
Cat(l, r) == IF l.k = "empty" \/ r.k = "empty" THEN Empty ELSE IF l.k = "eps" THEN r ELSE IF r.k = "eps" THEN l
             ELSE [k |-> "cat", l |-> l, r |-> r]
Alt(l, r) == IF l.k = "empty" THEN r ELSE IF r.k = "empty" THEN l ELSE IF l = r THEN l ELSE [k |-> "alt", l |-> l, r |-> r]

RECURSIVE Nullable(_)
Nullable(e) ==
  CASE e.k \in {"eps", "star", "opt"} -> TRUE
    [] e.k \in {"empty", "chr", "any", "cls", "ncls"} -> FALSE
    [] e.k = "cat" -> Nullable(e.l) /\ Nullable(e.r)
    [] e.k = "alt" -> Nullable(e.l) \/ Nullable(e.r)
    [] e.k = "plus" -> Nullable(e.x)
    [] e.k = "rep" -> e.m = 0 \/ Nullable(e.x)

RECURSIVE Deriv(_, _)
Deriv(e, c) ==
  CASE e.k \in {"empty", "eps"} -> Empty
    [] e.k = "chr" -> IF e.c = c THEN Eps ELSE Empty
    [] e.k = "any" -> Eps
    [] e.k = "cls" -> IF c \in e.s THEN Eps ELSE Empty
    [] e.k = "ncls" -> IF c \notin e.s THEN Eps ELSE Empty
    [] e.k = "cat" -> Alt(Cat(Deriv(e.l, c), e.r), IF Nullable(e.l) THEN Deriv(e.r, c) ELSE Empty)
    [] e.k = "alt" -> Alt(Deriv(e.l, c), Deriv(e.r, c))
    [] e.k = "star" -> Cat(Deriv(e.x, c), e)
    [] e.k = "plus" -> Cat(Deriv(e.x, c), [k |-> "star", x |-> e.x])
    [] e.k = "opt" -> Deriv(e.x, c)
    \* bounded repetition of a non-nullable body: one copy consumed
    [] e.k = "rep" -> IF e.n = 0 THEN Empty
                      ELSE Cat(Deriv(e.x, c), [k |-> "rep", x |-> e.x, m |-> (IF e.m = 0 THEN 0 ELSE e.m - 1), n |-> e.n - 1])

RECURSIVE IsEmpty(_)
IsEmpty(e) ==            \* the language of e has no sentence
  CASE e.k = "empty" -> TRUE
    [] e.k \in {"eps", "chr", "any", "star", "opt"} -> FALSE
    [] e.k = "cls" -> e.s \cap Sigma = {}
    [] e.k = "ncls" -> Sigma \subseteq e.s
    [] e.k = "cat" -> IsEmpty(e.l) \/ IsEmpty(e.r)
    [] e.k = "alt" -> IsEmpty(e.l) /\ IsEmpty(e.r)
    [] e.k = "plus" -> IsEmpty(e.x)
    [] e.k = "rep" -> e.m > 0 /\ IsEmpty(e.x)

RECURSIVE DerivStr(_, _)
DerivStr(e, s) == IF s = <<>> THEN e ELSE DerivStr(Deriv(e, Head(s)), Tail(s))

\* ---- direct membership (independent of derivatives)
RECURSIVE Matches(_, _)
Splits(s) == { <<SubSeq(s, 1, i), SubSeq(s, i + 1, Len(s))>> : i \in 0 .. Len(s) }
Matches(e, s) ==
  CASE e.k = "empty" -> FALSE
    [] e.k = "eps" -> s = <<>>
    [] e.k = "chr" -> s = <<e.c>>
    [] e.k = "any" -> Len(s) = 1
    [] e.k = "cls" -> Len(s) = 1 /\ s[1] \in e.s
    [] e.k = "ncls" -> Len(s) = 1 /\ s[1] \notin e.s
    [] e.k = "cat" -> \E p \in Splits(s) : Matches(e.l, p[1]) /\ Matches(e.r, p[2])
    [] e.k = "alt" -> Matches(e.l, s) \/ Matches(e.r, s)
    [] e.k = "star" -> s = <<>> \/ \E p \in Splits(s) : p[1] # <<>> /\ Matches(e.x, p[1]) /\ Matches(e, p[2])
    [] e.k = "plus" -> \E p \in Splits(s) : p[1] # <<>> /\ Matches(e.x, p[1]) /\ Matches([k |-> "star", x |-> e.x], p[2])
    [] e.k = "opt" -> s = <<>> \/ Matches(e.x, s)
    [] e.k = "rep" -> (e.m = 0 /\ s = <<>>) \/
                      (e.n > 0 /\ \E p \in Splits(s) : p[1] # <<>> /\ Matches(e.x, p[1])
                                     /\ Matches([k |-> "rep", x |-> e.x, m |-> (IF e.m = 0 THEN 0 ELSE e.m - 1), n |-> e.n - 1], p[2]))

\* ---- C11: what a machine built from e must do with input s
Viable(e, p) == ~IsEmpty(DerivStr(e, p))
\* longest prefix of s that can still be extended to a sentence
RECURSIVE Longest(_, _, _)
Longest(e, s, n) == IF n < Len(s) /\ Viable(e, SubSeq(s, 1, n + 1)) THEN Longest(e, s, n + 1) ELSE n
Expected(e, s) == LET n == Longest(e, s, 0) IN
                  [n |-> n, accept |-> n >= 1 /\ Nullable(DerivStr(e, SubSeq(s, 1, n)))]
=============================================================================
