----------------------------- MODULE MC_Automata ----------------------------
(* A family of synthetic machines built from the framework's state kinds, each under every limit 0..MaxL and repeat     *)
(* 0..MaxR, evaluated on every input of length <= MaxIn over the alphabet {1, 2, 3}.  The graph M is the union of all   *)
(* instances (state names carry the template and its parameters).  The harness rebuilds each instance from cpppo       *)
(* classes (state, state_input, state_drop, dfa) and compares the real run with Outcome.                                *)
EXTENDS Automata, Json

CONSTANTS MaxL, MaxR, MaxIn

None3 == <<"none">>
St(kind, term, greedy, alpha, edges, limit, repeat, init, store) ==
  [kind |-> kind, term |-> term, greedy |-> greedy, alpha |-> alpha, edges |-> edges, limit |-> limit, repeat |-> repeat,
   init |-> init, store |-> store]
Inp(term, edges)        == St("input", term, TRUE, {1, 2, 3}, edges, None3, None3, "", "")
InpOnly(sym, term, edges) == St("input", term, TRUE, {sym}, edges, None3, None3, "", "")
Null(term, edges)       == St("null", term, TRUE, {}, edges, None3, None3, "", "")
Dfa(term, init, limit, repeat, edges) == St("dfa", term, TRUE, {}, edges, limit, repeat, init, "")
LimOf(l) == IF l < 0 THEN None3 ELSE <<"int", l>>
N(a, l, r) == a \o "_" \o ToString(l) \o "_" \o ToString(r)

\* blk: limit l around a chain of 3 input states (fixed-size element of 3 symbols)
Blk(l) == LET p == N("blk", l, 0) IN
  { <<p, Dfa(TRUE, p \o ".1", LimOf(l), None3, <<>>)>>, <<p \o ".1", Inp(FALSE, <<<<ANY, p \o ".2">>>>)>>,
    <<p \o ".2", Inp(FALSE, <<<<ANY, p \o ".3">>>>)>>, <<p \o ".3", Inp(TRUE, <<>>)>> }
\* star: limit l around a greedy loop over symbol 1 (consumes as many 1s as the limit allows)
Star(l) == LET p == N("star", l, 0) IN
  { <<p, Dfa(TRUE, p \o ".0", LimOf(l), None3, <<>>)>>, <<p \o ".0", Null(TRUE, <<<<1, p \o ".s">>>>)>>,
    <<p \o ".s", InpOnly(1, TRUE, <<<<1, p \o ".s">>>>)>> }
\* rep: r repetitions of a 2-symbol element under limit l
Rep(l, r) == LET p == N("rep", l, r) IN
  { <<p, Dfa(TRUE, p \o ".a", LimOf(l), <<"int", r>>, <<>>)>>, <<p \o ".a", Inp(FALSE, <<<<ANY, p \o ".b">>>>)>>,
    <<p \o ".b", Inp(TRUE, <<>>)>> }
\* opt: r repetitions of an optional symbol 1 (a sub-grammar that may legally consume nothing), then a terminal
Opt(l, r) == LET p == N("opt", l, r) IN
  { <<p, Dfa(TRUE, p \o ".c", LimOf(l), <<"int", r>>, <<>>)>>,
    <<p \o ".c", Null(FALSE, << <<1, p \o ".x">>, <<NON, p \o ".e">> >>)>>,
    <<p \o ".x", InpOnly(1, TRUE, <<>>)>>, <<p \o ".e", Null(TRUE, <<>>)>> }
\* len: a length symbol, then exactly that many symbols (repeat from a parsed field), the whole under limit l;
\*      followed in the enclosing machine by one trailing symbol (what the limit must leave alone)
Len3(l) == LET p == N("len", l, 0) IN
  { <<p, Dfa(TRUE, p \o ".w", None3, None3, <<>>)>>,
    <<p \o ".w", Dfa(FALSE, p \o ".n", LimOf(l), None3, <<<<NON, p \o ".t">>>>)>>,
    <<p \o ".n", St("input", FALSE, TRUE, {1, 2, 3}, <<<<NON, p \o ".body">>>>, None3, None3, "", "len")>>,
    <<p \o ".body", Dfa(TRUE, p \o ".y", None3, <<"field", "len">>, <<>>)>>, <<p \o ".y", Inp(TRUE, <<>>)>>,
    <<p \o ".t", Inp(TRUE, <<>>)>> }
\* fld: a length symbol, then a greedy loop limited BY THAT FIELD, then one trailing symbol taken by the enclosing machine
Fld(l) == LET p == N("fld", l, 0) IN
  { <<p, Dfa(TRUE, p \o ".n", LimOf(l), None3, <<>>)>>,
    <<p \o ".n", St("input", FALSE, TRUE, {1, 2, 3}, <<<<NON, p \o ".g">>>>, None3, None3, "", "len")>>,
    <<p \o ".g", Dfa(FALSE, p \o ".0", <<"field", "len">>, None3, <<<<NON, p \o ".t">>>>)>>,
    <<p \o ".0", Null(TRUE, <<<<ANY, p \o ".s">>>>)>>, <<p \o ".s", Inp(TRUE, <<<<ANY, p \o ".s">>>>)>>,
    <<p \o ".t", Inp(TRUE, <<>>)>> }
\* nest: inner limit r inside outer limit l around a greedy loop (the tighter one wins)
Nest(l, r) == LET p == N("nest", l, r) IN
  { <<p, Dfa(TRUE, p \o ".i", LimOf(l), None3, <<>>)>>, <<p \o ".i", Dfa(TRUE, p \o ".0", <<"int", r>>, None3, <<>>)>>,
    <<p \o ".0", Null(TRUE, <<<<ANY, p \o ".s">>>>)>>, <<p \o ".s", Inp(TRUE, <<<<ANY, p \o ".s">>>>)>> }

\* mis: a greedy loop limited by a field that was never stored (a missing limit is the limit 0, not "no limit"), inside outer limit l
Mis(l) == LET p == N("mis", l, 0) IN
  { <<p, Dfa(TRUE, p \o ".i", LimOf(l), None3, <<>>)>>, <<p \o ".i", Dfa(TRUE, p \o ".0", <<"field", "nope">>, None3, <<>>)>>,
    <<p \o ".0", Null(TRUE, <<<<ANY, p \o ".s">>>>)>>, <<p \o ".s", Inp(TRUE, <<<<ANY, p \o ".s">>>>)>> }

Instances ==
  { [t |-> "blk", l |-> l, r |-> 0] : l \in (0 - 1) .. MaxL } \cup { [t |-> "star", l |-> l, r |-> 0] : l \in (0 - 1) .. MaxL }
  \cup { [t |-> "rep", l |-> l, r |-> r] : l \in (0 - 1) .. MaxL, r \in 0 .. MaxR }
  \cup { [t |-> "opt", l |-> l, r |-> r] : l \in {0 - 1, 1, 2}, r \in 0 .. (MaxR + 1) }
  \cup { [t |-> "len", l |-> l, r |-> 0] : l \in (0 - 1) .. MaxL } \cup { [t |-> "fld", l |-> l, r |-> 0] : l \in {0 - 1, 2, 4} }
  \cup { [t |-> "nest", l |-> l, r |-> r] : l \in {0 - 1, 0, 2, 4}, r \in 0 .. MaxR }
  \cup { [t |-> "mis", l |-> l, r |-> 0] : l \in {0 - 1, 0, 3} }
Graph(i) == CASE i.t = "blk" -> Blk(i.l) [] i.t = "star" -> Star(i.l) [] i.t = "rep" -> Rep(i.l, i.r) [] i.t = "opt" -> Opt(i.l, i.r)
              [] i.t = "len" -> Len3(i.l) [] i.t = "fld" -> Fld(i.l) [] i.t = "nest" -> Nest(i.l, i.r) [] i.t = "mis" -> Mis(i.l)
AllPairs == UNION { Graph(i) : i \in Instances }
MGraph == [ nm \in { p[1] : p \in AllPairs } |-> (CHOOSE p \in AllPairs : p[1] = nm)[2] ]
TopOf(i) == N(i.t, i.l, i.r)

RECURSIVE Level(_), UpTo(_)
Level(n) == IF n = 0 THEN << <<>> >> ELSE LET L == Level(n - 1) IN [ j \in 1 .. (Len(L) * 3) |-> Append(L[((j - 1) \div 3) + 1], ((j - 1) % 3) + 1) ]
UpTo(n) == IF n = 0 THEN Level(0) ELSE UpTo(n - 1) \o Level(n)
Inputs == UpTo(MaxIn)

\* the limit that applies to the whole instance (for the C10 law): its own limit, or "none"
VARIABLE inst
AInit == inst \in Instances
ANext == FALSE /\ UNCHANGED inst
\* C10 law on the design, and emission of the expected outcome of every input
Law == \A j \in 1 .. Len(Inputs) : inst.l < 0 \/ inst.t \in {"len", "fld"} \/ LimitRespected(TopOf(inst), Inputs[j], inst.l)
EmitInst == Law /\ PrintT(ToJson([k |-> "inst", i |-> inst,
                  res |-> [ j \in 1 .. Len(Inputs) |-> LET o == Outcome(TopOf(inst), Inputs[j]) IN
                                                      <<(IF o.k = "done" THEN 1 ELSE 0), o.pos, (IF o.term THEN 1 ELSE 0), o.runs>> ]]))
ASSUME PrintT(ToJson([k |-> "inputs", inputs |-> Inputs]))
=============================================================================
