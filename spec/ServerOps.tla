------------------------------ MODULE ServerOps -----------------------------
(***************************************************************************)
(* One TCP connection of the EtherNet/IP simulator: receive loop, framing,   *)
(* request pipeline, replies (properties C02, C06, C15; basis of C08).       *)
(*                                                                         *)
(* A scenario SC is                                                         *)
(*   [cfg    |-> Logix configuration (LogixOps),                             *)
(*    pers   |-> device personality: [k |-> "any"] | [k |-> "simple"] | [k |-> "path", segs |-> route],  *)
(*    mem0   |-> initial memory,                                             *)
(*    frames |-> sequence of client frames,                                  *)
(*    limit  |-> (optional) the server's request size limit: an encapsulated  *)
(*               payload LONGER than this many octets is refused]             *)
(* A frame is [kind, sess, ctx, wrap, route, tmo, req]:                       *)
(*   kind \in {"register","unregister","listservices","listidentity","listinterfaces","rr","badcmd",        *)
(*             "fwdopen","fwdclose" (SendRRData carrying a Forward Open / Close: extra field fo, CIPWire),   *)
(*             "unit" (SendUnitData, connected: extra fields cid (4 octets), seq)}                           *)
(*   sess, ctx: the 4/8 octets the client puts in the header; wrap \in {"simple","ucsend"};                  *)
(*   route: route path segments of the Unconnected Send wrapper; req: the Logix request carried by "rr".     *)
(*                                                                         *)
(* The connection state machine has one action per observable step of the    *)
(* real server: Recv(n), Poll, Eof, Proc (a complete frame is handed to       *)
(* request processing), Send(b) (a reply frame leaves), Close.               *)
(***************************************************************************)
EXTENDS LogixOps

----------------------------------------------------------------------------
(* Frames on the wire *)
KindCmd(k) == CASE k = "register" -> CmdRegister [] k = "unregister" -> CmdUnregister [] k = "listservices" -> CmdListServices
                [] k = "listidentity" -> CmdListIdentity [] k = "listinterfaces" -> CmdListInterfaces
                [] k \in {"rr", "fwdopen", "fwdclose"} -> CmdSendRR [] k = "unit" -> CmdSendUnit [] k = "badcmd" -> 153

\* Unconnected Send time-out fields: priority/tick exponent and tick count ((1 << priority) * ticks milliseconds); 5 / 157 unless the
\* frame says otherwise
UPrio(f) == IF "uprio" \in DOMAIN f THEN f.uprio ELSE 5
UTicks(f) == IF "uticks" \in DOMAIN f THEN f.uticks ELSE 157
CipOf(C, f) == IF f.wrap = "simple" THEN EncReq(C, f.req) ELSE EncUnconnectedSend(UPrio(f), UTicks(f), EncReq(C, f.req), f.route)

FrameBytes(C, f) ==
  CASE f.kind = "register" -> EncEnip(CmdRegister, f.sess, 0, f.ctx, 0, RegisterPayload)
    [] f.kind = "rr" -> RRFrame(f.sess, f.ctx, f.tmo, CipOf(C, f))
    [] f.kind = "fwdopen" -> RRFrame(f.sess, f.ctx, f.tmo, EncForwardOpen(f.fo))
    [] f.kind = "fwdclose" -> RRFrame(f.sess, f.ctx, f.tmo, EncForwardClose(f.fo))
    [] f.kind = "unit" -> EncEnip(CmdSendUnit, f.sess, 0, f.ctx, 0, EncSendData(f.tmo, <<ConnAddr(f.cid), ConnData(f.seq, EncReq(C, f.req))>>))
    [] OTHER -> EncEnip(KindCmd(f.kind), f.sess, 0, f.ctx, 0, <<>>)

Stream(SC) == Concat([ i \in 1 .. Len(SC.frames) |-> FrameBytes(SC.cfg, SC.frames[i]) ])
RECURSIVE EndOf(_, _)
\* offset (count of octets) at which frame i ends
EndOf(SC, i) == IF i = 0 THEN 0 ELSE EndOf(SC, i - 1) + Len(FrameBytes(SC.cfg, SC.frames[i]))

----------------------------------------------------------------------------
(* C15: does the device personality accept this request's route path?  A request without Unconnected Send wrapper,  *)
(* or with an empty route path, carries no route path.                                                              *)
NoRoute(f) == f.wrap = "simple" \/ f.route = <<>>
RouteAccepted(pers, f) ==
  \/ pers.k = "any"
  \/ NoRoute(f)
  \/ pers.k = "path" /\ f.route = pers.segs

----------------------------------------------------------------------------
(* Replies.  hdr(b): the 24-octet header fields of reply b. *)
HCmd(b) == LE(SubSeq(b, 1, 2))     HLen(b) == LE(SubSeq(b, 3, 4))     HSess(b) == SubSeq(b, 5, 8)
HStat(b) == SubSeq(b, 9, 12)       HCtx(b) == SubSeq(b, 13, 20)       HOpt(b) == SubSeq(b, 21, 24)
WellFramed(b) == Len(b) >= 24 /\ HLen(b) = Len(b) - 24

\* every reply: same command, the request's sender context (C06); length field = payload length
Echo(f, b) == WellFramed(b) /\ HCmd(b) = KindCmd(f.kind) /\ HCtx(b) = f.ctx

\* SendRRData success reply carrying CIP reply octets `cip': same framing as the request (null address item + one
\* unconnected data item), request's session handle and context
RRReply(f, cip) == EncEnip(CmdSendRR, f.sess, 0, f.ctx, 0, EncSendData(f.tmo, <<NullAddr, UnconnData(cip)>>))
CipIn(b) == SubSeq(b, 41, Len(b))
UnitReply(f, cid, cip) == EncEnip(CmdSendUnit, f.sess, 0, f.ctx, 0, EncSendData(f.tmo, <<ConnAddr(cid), ConnData(f.seq, cip)>>))

\* an error frame: non-zero encapsulation status, request's command / session handle / context
ErrFrame(f, b) == Echo(f, b) /\ HSess(b) = f.sess /\ HStat(b) # <<0, 0, 0, 0>>

\* the request size limit (option --size): the encapsulated payload (everything after the 24-octet header) of a frame may be
\* as long as the limit, not longer; an oversize request is not processed at all and answered by an error frame (which ends the session)
PayloadLen(SC, f) == Len(FrameBytes(SC.cfg, f)) - 24
Oversize(SC, f) == "limit" \in DOMAIN SC /\ PayloadLen(SC, f) > SC.limit

\* The List* replies of the simulator: one Communications service (capability 0x20: CIP encapsulation over TCP); the Identity object
\* as configured by default (a 1756-L61/B LOGIX5561: vendor 1, device type 14, product code 54, revision 20.11, status 0x3160,
\* serial 0x006c061a, state 0xFF), socket address family 2, port 44818, address 0.0.0.0; no interfaces
SimServices == [version |-> 1, capability |-> 32, name |-> <<67, 111, 109, 109, 117, 110, 105, 99, 97, 116, 105, 111, 110, 115>>]
SimIdentity == [version |-> 1, family |-> 2, port |-> 44818, addr |-> <<0, 0, 0, 0>>, vendor |-> 1, devtype |-> 14, product |-> 54, revision |-> 2836,
                status |-> 12640, serial |-> <<26, 6, 108, 0>>,
                name |-> <<49, 55, 53, 54, 45, 76, 54, 49, 47, 66, 32, 76, 79, 71, 73, 88, 53, 53, 54, 49>>, state |-> 255]
ListPayload(kind) == CASE kind = "listservices" -> EncCPF(<<EncServicesItem(SimServices)>>)
                       [] kind = "listidentity" -> EncCPF(<<EncIdentityItem(SimIdentity)>>)
                       [] kind = "listinterfaces" -> EncCPF(<<>>)

\* May the request processing of frame f, in memory m, be answered by reply b -- and with which memories after?
\* Result: set of [mem, close]; empty = reply not allowed.
ReplyOutcomes(SC, m, f, b) ==
  CASE Oversize(SC, f) -> IF ErrFrame(f, b) THEN { [mem |-> m, close |-> TRUE] } ELSE {}
    [] f.kind = "register" ->
         IF Echo(f, b) /\ HStat(b) = <<0, 0, 0, 0>> /\ HSess(b) # <<0, 0, 0, 0>> /\ SubSeq(b, 25, Len(b)) = RegisterPayload
         THEN { [mem |-> m, close |-> FALSE] } ELSE {}
    [] f.kind \in {"listservices", "listidentity", "listinterfaces"} ->
         IF Echo(f, b) /\ HStat(b) = <<0, 0, 0, 0>> /\ SubSeq(b, 25, Len(b)) = ListPayload(f.kind) THEN { [mem |-> m, close |-> FALSE] } ELSE {}
    [] f.kind = "rr" ->
         IF ~RouteAccepted(SC.pers, f)
         THEN (IF ErrFrame(f, b) THEN { [mem |-> m, close |-> TRUE] } ELSE {})          \* C15: refused, error status
         ELSE IF WellFramed(b) /\ HStat(b) = <<0, 0, 0, 0>> /\ Len(b) >= 40 /\ b = RRReply(f, CipIn(b))
              THEN { [mem |-> x, close |-> FALSE] : x \in After(SC.cfg, m, f.req, CipIn(b)) }
              \* C06 "unroutable": only a request the device cannot route (unknown tag/object) may be answered
              \* by an encapsulation error, which ends the session
              ELSE IF ErrFrame(f, b) /\ After(SC.cfg, m, f.req, <<>>) # {}
                   THEN { [mem |-> x, close |-> TRUE] : x \in After(SC.cfg, m, f.req, <<>>) }
                   ELSE {}
    \* connected messaging.  Forward Open: the success reply echoes the serials, grants the requested packet intervals, and
    \* carries the connection ids -- the originator's, except that the target picks the O->T id of a point-to-point and the
    \* T->O id of a multicast connection (PERMISSIVE: any 4 octets there).
    [] f.kind = "fwdopen" ->
         LET cip == CipIn(b)
             fo2 == [f.fo EXCEPT !.ot.id = IF f.fo.ot.type = 2 /\ Len(cip) >= 12 THEN SubSeq(cip, 5, 8) ELSE @,
                                 !.to.id = IF f.fo.to.type = 1 /\ Len(cip) >= 12 THEN SubSeq(cip, 9, 12) ELSE @] IN
         IF WellFramed(b) /\ HStat(b) = <<0, 0, 0, 0>> /\ Len(b) >= 40 /\ b = RRReply(f, cip)
            /\ cip = EncForwardOpenReply(fo2, f.fo.ot.rpi, f.fo.to.rpi)
         THEN { [mem |-> m, close |-> FALSE] } ELSE {}
    [] f.kind = "fwdclose" ->
         IF WellFramed(b) /\ HStat(b) = <<0, 0, 0, 0>> /\ Len(b) >= 40 /\ b = RRReply(f, EncForwardCloseReply(f.fo))
         THEN { [mem |-> m, close |-> FALSE] } ELSE {}
    \* SendUnitData: same command / session / context; connected address item (PERMISSIVE: any connection id -- a
    \* controller answers with the T->O id, the simulator echoes the request's), the request's sequence count, CIP reply
    [] f.kind = "unit" ->
         IF WellFramed(b) /\ HStat(b) = <<0, 0, 0, 0>> /\ Len(b) >= 46 /\ b = UnitReply(f, SubSeq(b, 37, 40), SubSeq(b, 47, Len(b)))
         THEN { [mem |-> x, close |-> FALSE] : x \in After(SC.cfg, m, f.req, SubSeq(b, 47, Len(b))) }
         ELSE IF ErrFrame(f, b) /\ After(SC.cfg, m, f.req, <<>>) # {}
              THEN { [mem |-> x, close |-> TRUE] : x \in After(SC.cfg, m, f.req, <<>>) }
              ELSE {}
    [] OTHER -> {}

\* the connection table: which reply opens / closes the connection with the frame's connection serial
ConnEffect(f) == IF f.kind = "fwdopen" THEN "open" ELSE IF f.kind = "fwdclose" THEN "close" ELSE "none"

\* frames that get no reply at all: Unregister (session ends) and commands outside the supported grammar (C08: close)
Silent(f) == f.kind \in {"unregister", "badcmd"}
\* a representative reply for each allowed outcome (the model needs concrete reply octets to send)
EncOut(C, r, o) ==
  LET svc == SvcCode(r) IN
  CASE o.k = "ok" /\ r.svc \in {"read", "readf"} -> EncReadReply(svc, o.st, <<>>, C.tags[r.tag].type, o.data)
    [] o.k = "ok" -> EncPlainReply(svc, 0, <<>>)
    [] o.k = "okbytes" -> EncDataReply(svc, 0, <<>>, o.data)
    [] o.k = "err" -> EncPlainReply(svc, o.st, o.ext)
    [] o.k = "anyfail" -> EncPlainReply(svc, 5, <<0>>)
RepliesOf(SC, m, f) ==
  CASE Oversize(SC, f) -> { EncEnip(KindCmd(f.kind), f.sess, 101, f.ctx, 0, <<>>) }
    [] f.kind = "register" -> { EncEnip(CmdRegister, <<1, 0, 0, 0>>, 0, f.ctx, 0, RegisterPayload) }
    [] f.kind \in {"listservices", "listidentity", "listinterfaces"} -> { EncEnip(KindCmd(f.kind), f.sess, 0, f.ctx, 0, ListPayload(f.kind)) }
    [] f.kind = "rr" /\ ~RouteAccepted(SC.pers, f) -> { EncEnip(CmdSendRR, f.sess, 8, f.ctx, 0, <<>>) }
    [] f.kind = "rr" /\ f.req.svc # "multi" ->
         { RRReply(f, EncOut(SC.cfg, f.req, o)) : o \in SingleOuts(SC.cfg, m, f.req) }
         \cup (IF f.req.tag = 0 THEN { EncEnip(CmdSendRR, f.sess, 8, f.ctx, 0, <<>>) } ELSE {})
    [] f.kind = "fwdopen" -> { RRReply(f, EncForwardOpenReply(f.fo, f.fo.ot.rpi, f.fo.to.rpi)), RRReply(f, EncForwardOpenFail(f.fo, 8, <<>>)) }
    [] f.kind = "fwdclose" -> { RRReply(f, EncForwardCloseReply(f.fo)) }
    [] f.kind = "unit" /\ f.req.svc # "multi" -> { UnitReply(f, f.cid, EncOut(SC.cfg, f.req, o)) : o \in SingleOuts(SC.cfg, m, f.req) }
    [] OTHER -> {}

\* a reply frame that acknowledges a write-class service (Write Tag [Fragmented] 0xCD/0xD3, Set Attribute Single 0x90) with
\* success, or answers a bundle as a whole (0x8A: its well-formed member writes may have been executed)
AckWrite(b) == /\ WellFramed(b) /\ Len(b) >= 44 /\ HCmd(b) \in {111, 112}
               /\ \E at \in {41, 47} : Len(b) >= at + 3 /\ ((b[at] \in {205, 211, 144} /\ b[at + 2] = 0) \/ b[at] = 138)
=============================================================================
