---------------------------- MODULE AutomataTrace ---------------------------
(* C10 on recorded runs of library machines wrapped in dfa(limit = L): one NDJSON line per run                         *)
(*   {"L": limit, "len": octets of the message, "sent": reported consumed, "actual": symbols really taken, "ok": completed terminal, *)
(*    "delim": the message is delimited by its own length fields (fixed size, string / path / item / frame lengths)}                 *)
(* The message is always followed by further octets (which belong to the enclosing grammar).                                        *)
EXTENDS Naturals, Sequences, TLC, Json, IOUtils
Traces == ndJsonDeserialize(IOEnv.TRACE_FILE)
VARIABLE t
TInit == t \in 1 .. Len(Traces)
TNext == FALSE /\ UNCHANGED t
X == Traces[t]
LimitRespected == X.ok => X.sent <= X.L                      \* never completes successfully beyond the limit
SentAccounting == X.sent = X.actual                          \* reported = actually taken (push-backs, chained blocks)
\* a limit that is a length field parsed earlier in the same message: the following octets are left to the enclosing grammar
InnerLimits == (X.ok /\ X.delim) => X.sent <= X.len
Why == IF ~LimitRespected THEN "limit-exceeded" ELSE IF ~SentAccounting THEN "sent-accounting"
       ELSE IF ~InnerLimits THEN "consumed-beyond-its-own-length-fields" ELSE "ok"
Verdict == Why = "ok" \/ PrintT(ToJson([tid |-> t, why |-> Why]))
=============================================================================
