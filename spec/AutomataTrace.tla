---------------------------- MODULE AutomataTrace ---------------------------
(* C10 on recorded runs of library machines wrapped in dfa(limit = L): one NDJSON line per run                         *)
(*   {"L": limit, "len": octets of the message, "sent": reported consumed, "actual": symbols really taken, "ok": completed terminal} *)
EXTENDS Naturals, Sequences, TLC, Json, IOUtils
Traces == ndJsonDeserialize(IOEnv.TRACE_FILE)
VARIABLE t
TInit == t \in 1 .. Len(Traces)
TNext == FALSE /\ UNCHANGED t
X == Traces[t]
LimitRespected == X.ok => X.sent <= X.L                      \* never completes successfully beyond the limit
SentAccounting == X.sent = X.actual                          \* reported = actually taken (push-backs, chained blocks)
Why == IF ~LimitRespected THEN "limit-exceeded" ELSE IF ~SentAccounting THEN "sent-accounting" ELSE "ok"
Verdict == Why = "ok" \/ PrintT(ToJson([tid |-> t, why |-> Why]))
=============================================================================
