SPECIFICATION CSpec
CONSTANTS
 Sess = {1, 2}
 MaxReq = 2
 Discipline = "send-first"
INVARIANT OwnReply
CHECK_DEADLOCK FALSE
