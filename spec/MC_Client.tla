------------------------------ MODULE MC_Client -----------------------------
(* Operation lists for C12 / C13 over a four-tag configuration, with their textual forms. *)
EXTENDS Client, Json
CONSTANTS MaxOps
QCfg == [ budget |-> 488,
          tags |-> << [name |-> <<65>>,         type |-> "INT",  len |-> 3, scalar |-> FALSE, cia |-> <<2, 1, 1>>],
                      [name |-> <<66, 98>>,     type |-> "INT",  len |-> 1, scalar |-> TRUE,  cia |-> <<2, 1, 2>>],
                      [name |-> <<67, 95, 51>>, type |-> "DINT", len |-> 2, scalar |-> FALSE, cia |-> <<153, 1, 2>>],
                      [name |-> <<68>>,         type |-> "DINT", len |-> 1, scalar |-> FALSE, cia |-> <<153, 1, 3>>],
                      [name |-> <<84>>,         type |-> "LREAL", len |-> 1, scalar |-> FALSE, cia |-> <<2, 1, 3>>],
                      [name |-> <<85>>,         type |-> "SSTRING", len |-> 1, scalar |-> FALSE, cia |-> <<2, 1, 4>>] >> ]
Rq(svc, tag, mode, idx, n, typ, vals) == [svc |-> svc, tag |-> tag, mode |-> mode, idx |-> idx, n |-> n, off |-> 0, typ |-> typ,
                                          vals |-> vals, bytes |-> <<>>, ms |-> <<>>]
RqF(svc, tag, idx, n, off, typ, vals) == [Rq(svc, tag, "sym", idx, n, typ, vals) EXCEPT !.off = off]
\* attribute services (Get / Set Attribute Single on the tag's attribute; text '@class/instance/attribute[=(TYPE)v,...]')
RqA(svc, tag, typ, vals) == [Rq(svc, tag, "cia", 0 - 1, 0, typ, vals) EXCEPT !.bytes = EncElems(typ, vals)]
Basis == { RqA("gas", 1, "INT", <<>>), RqA("sas", 1, "INT", << <<21, 0>>, <<22, 0>>, <<23, 0>> >>), RqA("gas", 3, "DINT", <<>>),
           RqA("sas", 1, "INT", << <<21, 0>>, <<22, 0>> >>),                              \* too short for the attribute: refused
           \* explicit byte offsets: single fragments (the first two values of A[0-2]; its third; a read from its second element)
           RqF("writef", 1, 0, 3, 0, "INT", << <<7, 0>>, <<8, 0>> >>), RqF("writef", 1, 0, 3, 4, "INT", << <<9, 0>> >>),
           RqF("writef", 3, 0, 2, 4, "DINT", << <<9, 0, 0, 0>> >>),                       \* the second element of C_3[0-1] by its byte offset, cast to a 4-octet type
           RqF("readf", 1, 0, 3, 2, "INT", <<>>), Rq("read", 1, "sym", 0, 3, "INT", <<>>), Rq("read", 1, "sym", 1, 1, "INT", <<>>), Rq("read", 2, "sym", 0 - 1, 1, "INT", <<>>),
           Rq("write", 1, "sym", 1, 2, "INT", << <<5, 0>>, <<6, 0>> >>), Rq("write", 1, "cia", 0, 1, "INT", << <<44, 1>> >>),
           Rq("write", 3, "sym", 0, 2, "DINT", << <<8, 0, 0, 0>>, <<9, 0, 0, 0>> >>),
           Rq("read", 1, "sym", 2, 3, "INT", <<>>),                                   \* beyond the end: 0xFF / 0x2105
           Rq("write", 1, "sym", 0, 1, "DINT", << <<1, 0, 0, 0>> >>),                 \* type mismatch: 0xFF / 0x2107
           Rq("read", 3, "cia", 0, 2, "DINT", <<>>), Rq("write", 4, "sym", 0, 1, "DINT", << <<3, 0, 0, 0>> >>),
           Rq("read", 4, "cia", 0, 1, "DINT", <<>>),
           Rq("write", 5, "sym", 0, 1, "LREAL", << <<154, 153, 153, 153, 153, 153, 185, 63>> >>), Rq("read", 5, "sym", 0, 1, "LREAL", <<>>),
           Rq("write", 6, "sym", 0, 1, "SSTRING", << <<97, 46, 98>> >>), Rq("read", 6, "sym", 0, 1, "SSTRING", <<>>) }
Lists == UNION { [1 .. k -> Basis] : k \in 1 .. MaxOps }
ASSUME PrintT(ToJson([k |-> "cfg", cfg |-> QCfg, mem0 |-> ZeroMemOf(QCfg)]))
ASSUME \A r \in Basis : PrintT(ToJson([k |-> "op", r |-> r, text |-> OpText(QCfg, r)]))
\* writes spelled without a cast: the values are of the entry point's default integer type
PlainOps == { RqA("sas", 1, "SINT", << <<1>>, <<2>>, <<3>> >>), RqA("sas", 3, "SINT", << <<100>> >>),
              Rq("write", 1, "sym", 0, 2, "INT", << <<5, 0>>, <<6, 0>> >>), Rq("write", 2, "sym", 0 - 1, 1, "INT", << <<44, 1>> >>), Rq("write", 3, "cia", 0, 1, "INT", << <<7, 0>> >>) }
DotPaths == { << <<"Motor", 5, 5>>, <<"Speed", 0 - 1, 0>> >>, << <<"A", 0 - 1, 0>>, <<"Bb", 1, 1>>, <<"D", 3, 4>> >>, << <<"A", 3, 3>>, <<"Bb", 0 - 1, 0>> >>,
              << <<"A", 2, 2>>, <<"Bb", 7, 7>> >>, << <<"A", 0 - 1, 0>>, <<"Bb", 0 - 1, 0>> >> }
ASSUME \A cs \in DotPaths : PrintT(ToJson([k |-> "pathtext", text |-> DotText(cs), segs |-> DotSegs(cs), elm |-> DotElm(cs), cnt |-> DotCnt(cs)]))
\* value lists with blanks after the cast and after the commas (quoted strings, true / false)
PaddedOps == { << Rq("write", 6, "sym", 0, 2, "SSTRING", << <<97>>, <<98>> >>), "U[0-1]=(SSTRING) \"a\", \"b\"" >>,
               << Rq("write", 1, "sym", 0, 2, "INT", << <<5, 0>>, <<6, 0>> >>), "A[0-1]=(INT) 5, 6" >> }
ASSUME \A x \in PaddedOps : PrintT(ToJson([k |-> "optext", r |-> x[1], text |-> x[2]]))
ASSUME \A r \in PlainOps : r.typ = DefaultIntType(r) /\ PrintT(ToJson([k |-> "optext", r |-> r, text |-> PlainText(QCfg, r)]))
ASSUME \A r \in Basis : \A tx \in AltTexts(QCfg, r) : PrintT(ToJson([k |-> "optext", r |-> r, text |-> tx]))
\* replies larger than one receive buffer: a 100-element DINT array read many times in one Multiple Service Packet
BigCfg == [ budget |-> 488,
            tags |-> << [name |-> <<88>>, type |-> "DINT", len |-> 100, scalar |-> FALSE, cia |-> <<2, 1, 1>>],
                        [name |-> <<65>>, type |-> "INT", len |-> 3, scalar |-> FALSE, cia |-> <<2, 1, 2>>] >> ]
BigBasis == { Rq("read", 1, "sym", 0, 100, "DINT", <<>>), Rq("read", 1, "sym", 10, 90, "DINT", <<>>),
              Rq("write", 1, "sym", 98, 2, "DINT", << <<8, 0, 0, 0>>, <<9, 0, 0, 0>> >>), Rq("read", 2, "sym", 0, 3, "INT", <<>>) }
ASSUME PrintT(ToJson([k |-> "bigcfg", cfg |-> BigCfg, mem0 |-> ZeroMemOf(BigCfg)]))
ASSUME \A r \in BigBasis : PrintT(ToJson([k |-> "bigop", r |-> r, text |-> OpText(BigCfg, r)]))
VARIABLE lst
LInit == lst \in Lists
LNext == FALSE /\ UNCHANGED lst
LEmit == PrintT(ToJson([k |-> "list", ops |-> lst]))
=============================================================================
