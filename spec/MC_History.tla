------------------------------ MODULE MC_History ----------------------------
(* Bounded scenarios for C18: 1..3 files of 1..2 (3 when Deep) records, non-decreasing integer timestamps 0..3 (equal   *)
(* and increasing, also across file boundaries), start points before / inside / after, speed factors 1 and 2,        *)
(* look-ahead 0 and 1; every schedule of clock ticks and load(limit) calls.                                           *)
EXTENDS History, Json
CONSTANTS Deep

MaxRec == IF Deep THEN 3 ELSE 2
\* all non-decreasing timestamp sequences of length n over 0..3
RECURSIVE Mono(_, _)
Mono(n, lo) == IF n = 0 THEN { <<>> } ELSE UNION { { <<x>> \o s : s \in Mono(n - 1, x) } : x \in lo .. 3 }
\* compositions of n into 1..3 parts of size 1..MaxRec
Parts(n) == { <<n>> : x \in {1} } \cup { <<a, n - a>> : a \in 1 .. (n - 1) } \cup UNION { { <<a, b, n - a - b>> : b \in 1 .. (n - a - 1) } : a \in 1 .. (n - 2) }
GoodParts(n) == { p \in Parts(n) : \A i \in 1 .. Len(p) : p[i] >= 1 /\ p[i] <= MaxRec }
RECURSIVE SumTo(_, _)
SumTo(p, j) == IF j = 0 THEN 0 ELSE p[j] + SumTo(p, j - 1)
MRec(ts, i) == [ts |-> ts, reg |-> 1 + (i % 2), val |-> 10 + i]
FilesOf(tss, p) == [ f \in 1 .. Len(p) |-> [ j \in 1 .. p[f] |-> MRec(tss[SumTo(p, f - 1) + j], SumTo(p, f - 1) + j) ] ]
Layouts == UNION { { FilesOf(tss, p) : tss \in Mono(n, 0), p \in GoodParts(n) } : n \in 1 .. (IF Deep THEN 6 ELSE 4) }
\* long rotations: k files of two records each with increasing timestamps (file suffixes reach two digits)
LongLayout(k) == [ f \in 1 .. k |-> << MRec(2 * f - 2, 2 * f - 1), MRec(2 * f - 1, 2 * f) >> ]
LongScenarios == { [files |-> LongLayout(k), start |-> st, factor |-> fa, lookahead |-> 0] : k \in {11, 13}, st \in {0 - 1, 5, 17}, fa \in {1, 3} }
Scenarios == { [files |-> fs, start |-> st, factor |-> fa, lookahead |-> la] :
                 fs \in Layouts, st \in {0 - 1, 0, 1, 2, 4}, fa \in {1, 2}, la \in {0, 1} }
EmitScenarios == Scenarios \cup LongScenarios

VARIABLES sc, mnow, mdel, mout
mvars == <<sc, mnow, mdel, mout>>
MInit == sc \in Scenarios /\ mnow = 0 /\ mdel = 0 /\ mout = <<>>
MTick == mnow < 6 /\ mnow' = mnow + 1 /\ UNCHANGED <<sc, mdel, mout>>
MLoad(limit) == /\ mout' = LoadMust(sc, mdel, mnow, limit) /\ mdel' = mdel + Len(mout') /\ UNCHANGED <<sc, mnow>>
MNext == MTick \/ MLoad(0) \/ MLoad(1)
MSpec == MInit /\ [][MNext]_mvars /\ WF_mvars(MTick) /\ WF_mvars(MLoad(0))

\* C18 on the specification
ExactlyOnceInOrder == mdel <= Len(Replay(sc)) /\ (mout # <<>> => mout = SubSeq(Replay(sc), mdel - Len(mout) + 1, mdel))
MNotEarly == \A i \in 1 .. Len(mout) : mout[i].ts <= HClock(sc, mnow) + sc.lookahead
\* not late: a load that returned fewer events than its limit allows left nothing due undelivered
NotLate == [][ (mnow' = mnow) => mdel' >= DueCount(Replay(sc), HClock(sc, mnow) + sc.lookahead, 0) \/ Len(mout') = 1 ]_mvars
Completes == <>(mdel = Len(Replay(sc)))

EmitScenario == PrintT(ToJson([k |-> "hist", sc |-> sc, replay |-> Replay(sc), startfile |-> StartFile(sc)]))
EInit == sc \in EmitScenarios /\ mnow = 0 /\ mdel = 0 /\ mout = <<>> /\ EmitScenario
ENext == FALSE /\ UNCHANGED mvars
=============================================================================
