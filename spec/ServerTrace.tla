----------------------------- MODULE ServerTrace ----------------------------
(* Validation of sessions of the real server (virtual socket around enip_srv_tcp) against Server.                    *)
(* One NDJSON line per session: {"sc": scenario, "ev": [events], "final": memory after the session, "others": b}     *)
(* events: {"a":"recv","n":k} {"a":"poll"} {"a":"eof"} {"a":"proc","i":j} {"a":"send","b":octets,"conns":[serials]}     *)
(*         {"a":"close"}  -- "conns": the connection serials the real Connection Manager holds for the peer at that point  *)
(*         {"a":"conns-left","n":k} (always last: after the session the Connection Manager holds k connections of the peer)  *)
(*         {"a":"exc"} (an exception left the session function after the close; the listener swallows it)            *)
(* "others": a second connection made afterwards was served correctly (C02 / C08: the listener keeps working).       *)
EXTENDS Server, Json, IOUtils, TLCExt

Traces == ndJsonDeserialize(IOEnv.TRACE_FILE)
VARIABLES t, l
tvars == <<svars, t, l>>

SC == Traces[t].sc
Ev == Traces[t].ev

TInit == t \in 1 .. Len(Traces) /\ l = 1 /\ SInit(Traces[t].sc)

TStep == /\ l <= Len(Ev) /\ l' = l + 1 /\ UNCHANGED t
         /\ LET e == Ev[l] IN
            CASE e.a = "recv"  -> Recv(SC, e.n)
              [] e.a = "poll"  -> Poll
              [] e.a = "eof"   -> Eof
              [] e.a = "proc"  -> e.i = next /\ Proc(SC)
              [] e.a = "send"  -> Send(SC, e.b) /\ { c.serial : c \in conns' } = { e.conns[k] : k \in 1 .. Len(e.conns) }     \* the real Forward Open table
              [] e.a = "close" -> Close(SC)
              [] e.a = "exc"   -> closed /\ UNCHANGED svars
              [] e.a = "conns-left" -> closed /\ Cardinality({ c.serial : c \in conns }) = e.n /\ UNCHANGED svars      \* the table after the session
              [] OTHER -> FALSE
TSpec == TInit /\ [][TStep]_tvars

WhyStuck == LET e == Ev[l] IN
   IF e.a = "proc" THEN (IF ~Complete(SC, next) THEN "acted-on-incomplete-frame" ELSE "unexpected-processing")
   ELSE IF e.a = "send" THEN (IF pend = 0 THEN "reply-without-request"
                              ELSE IF ReplyOutcomes(SC, smem, SC.frames[pend], e.b) # {} THEN "connection-table-differs" ELSE "reply-not-allowed")
   ELSE IF e.a = "conns-left" THEN "connection-table-after-session-differs"
   ELSE IF e.a = "close" THEN "close-with-unanswered-complete-request"
   ELSE e.a
Verdict == (l <= Len(Ev) /\ ~ENABLED TStep) => PrintT(ToJson([tid |-> t, at |-> l, why |-> WhyStuck]))
\* end of an accepted trace: the connection is closed, nothing awaits a reply, the memory is what the spec computed,
\* and the rest of the system still works
\* C15: a session whose first request is refused for its route path performs no tag access at all
NoAccessOK == (SC.frames[1].kind = "rr" /\ ~RouteAccepted(SC.pers, SC.frames[1])) => Traces[t].acc = 0
Final == (l = Len(Ev) + 1) =>
           (IF closed /\ pend = 0 /\ smem = Traces[t].final /\ Traces[t].others /\ NoAccessOK THEN TRUE
            ELSE PrintT(ToJson([tid |-> t, at |-> Len(Ev), why |-> (IF ~closed THEN "not-closed" ELSE IF pend # 0 THEN "missing-reply"
                                   ELSE IF smem # Traces[t].final THEN "memory-differs" ELSE IF ~NoAccessOK THEN "tag-access-on-refused-route"
                                   ELSE "other-sessions-affected")])))
=============================================================================
