------------------------------ MODULE LogixOps ------------------------------
(***************************************************************************)
(* The Logix simulator as a set of fixed-length typed arrays (tags) and the  *)
(* tag / attribute services that read and write them.                        *)
(* Properties C03 (typed arrays), C04 (fragmented transfers), C05 (refusal   *)
(* without side effects, accepted writes stay readable), C07 (bundles).      *)
(*                                                                         *)
(* A configuration C is [tags |-> <<tag, ...>>, budget |-> reply budget in octets];    *)
(* a tag is [name |-> chars, type |-> t, len |-> n, scalar |-> b, cia |-> <<c,i,a>>].  *)
(* The memory `mem' maps a tag index to the sequence of its element values;  *)
(* an element value is a byte string (see CIPWire).                          *)
(*                                                                         *)
(* A request is a record                                                    *)
(*   [svc, tag, mode, idx, n, off, typ, vals, bytes, ms]                    *)
(*   svc  \in {"read","readf","write","writef","gas","sas","gal","gaa","multi"} *)
(*   (gal: Get Attribute List, with the attribute numbers in an extra field   *)
(*   attrs; gaa: Get Attributes All -- both addressed to the OBJECT of tag    *)
(*   r.tag, i.e. the class and instance of its numeric address)               *)
(*   tag  : index into C.tags, 0 = a tag name the device does not know      *)
(*   mode : "sym" (symbolic name) | "cia" (class/instance/attribute)         *)
(*   idx  : element index, -1 = no element segment in the path               *)
(*   n    : element count;  off : byte offset (fragmented services)          *)
(*   typ, vals : data type and element values carried by a write             *)
(*   bytes: octets carried by Set Attribute Single;  ms: members of a bundle *)
(*                                                                         *)
(* Outs(C, mem, r) is the SET of outcomes the statements allow.  Where a     *)
(* statement fixes a reply it is a singleton; every deliberate latitude is   *)
(* marked PERMISSIVE with the property it comes from.                        *)
(***************************************************************************)
EXTENDS CIPWire, Integers, TLC, FloatTab

E2105 == 8453      \* 0x2105  number of elements extends beyond the end of the tag
E2107 == 8455      \* 0x2107  data type does not match the tag's

UnknownName == <<78, 79, 80, 69>>       \* "NOPE"

----------------------------------------------------------------------------
(* Value conversion: request type T, tag type U.                             *)

Canon(t, v) == IF t = "BOOL" THEN (IF v = <<0>> THEN <<0>> ELSE <<255>>) ELSE v

IsNeg(t, v) == t \in SignedTypes /\ v[Len(v)] >= 128

\* small integer denoted by v (for conversion into floating point), or 99 if not small
SmallInt(t, v) ==
  IF t = "BOOL" THEN (IF v = <<0>> THEN 0 ELSE 1)
  ELSE IF \A i \in 2 .. Len(v) : v[i] = 0 THEN (IF v[1] <= 2 THEN v[1] ELSE 99)
  ELSE IF t \in SignedTypes /\ (\A i \in 2 .. Len(v) : v[i] = 255) /\ v[1] = 255 THEN 0 - 1
  ELSE 99

F32(n) == CASE n = 0 -> <<0, 0, 0, 0>> [] n = 1 -> <<0, 0, 128, 63>> [] n = 2 -> <<0, 0, 0, 64>>
            [] n = 0 - 1 -> <<0, 0, 128, 191>>
F64(n) == CASE n = 0 -> <<0, 0, 0, 0, 0, 0, 0, 0>> [] n = 1 -> <<0, 0, 0, 0, 0, 0, 240, 63>>
            [] n = 2 -> <<0, 0, 0, 0, 0, 0, 0, 64>> [] n = 0 - 1 -> <<0, 0, 0, 0, 0, 0, 240, 191>>
\* REAL values of the model domain widened to LREAL
F32to64(v) == CASE v = <<0, 0, 0, 0>> -> F64(0) [] v = <<0, 0, 128, 63>> -> F64(1) [] v = <<0, 0, 0, 64>> -> F64(2)
                [] v = <<0, 0, 128, 191>> -> F64(0 - 1) [] v = <<0, 0, 32, 64>> -> <<0, 0, 0, 0, 0, 0, 4, 64>>   \* 2.5
                [] OTHER -> <<>>

NoRep == <<>>          \* "not representable" (no element value of a fixed-size type is empty)

\* Conv(T, U, v): v of request type T as an element of tag type U, or NoRep
Conv(T, U, v) ==
  IF T = U THEN Canon(U, v)
  ELSE IF U \in StrTypes \/ T \in StrTypes THEN NoRep
  ELSE IF U \in FloatTypes THEN
         (IF T = "REAL" /\ U = "LREAL" THEN F32Widen(v)
          ELSE IF T \in FloatTypes THEN NoRep
          ELSE IF T = "BOOL" THEN (IF U = "REAL" THEN F32(SmallInt(T, v)) ELSE F64(SmallInt(T, v)))
          \* integers become the nearest floating point value (FloatTab: the images of the model's integer domain)
          ELSE IF U = "REAL" THEN IntToF32(T, v) ELSE IntToF64(T, v))
  ELSE IF T \in FloatTypes THEN NoRep
  ELSE IF U = "BOOL" THEN NoRep
  ELSE IF T = "BOOL" THEN <<(IF v = <<0>> THEN 0 ELSE 1)>> \o Zeros(Size(U) - 1)
  ELSE IF Size(U) < Size(T) THEN NoRep
  ELSE IF IsNeg(T, v) THEN (IF U \in SignedTypes THEN v \o Rep(255, Size(U) - Size(T)) ELSE NoRep)
  ELSE IF Size(U) = Size(T) /\ U \in SignedTypes /\ v[Len(v)] >= 128 THEN NoRep
  ELSE v \o Zeros(Size(U) - Size(T))

(* C05 "writes a data type the tag cannot hold": the pairs every reading of the statement refuses --   *)
(* a wider type into a narrower tag, floating point into integers, anything into/out of strings, or     *)
(* a non-BOOL into BOOL.  For the remaining T # U pairs (narrower or same-width integers, integers into *)
(* floating point, REAL into LREAL) the statement leaves the choice: PERMISSIVE(C05).                   *)
MustRefuse(T, U) ==
  /\ T # U
  /\ \/ U \in StrTypes \/ T \in StrTypes
     \/ U = "BOOL"
     \/ (T \in FloatTypes /\ U \notin FloatTypes)
     \/ (T = "LREAL" /\ U = "REAL")
     \/ (T # "BOOL" /\ Size(T) > Size(U))

----------------------------------------------------------------------------
(* Outcomes *)
Ok(st, data, m)  == [k |-> "ok", st |-> st, ext |-> <<>>, data |-> data, mem |-> m]
Err(st, ext, m)  == [k |-> "err", st |-> st, ext |-> ext, data |-> <<>>, mem |-> m]
AnyFail(m)       == [k |-> "anyfail", st |-> 1, ext |-> <<>>, data |-> <<>>, mem |-> m]     \* any failure indication, no change

Idx0(r) == IF r.idx < 0 THEN 0 ELSE r.idx

Replace(seq, first, vals) ==        \* elements first+1 .. first+Len(vals) replaced (first is 0-based)
  [ i \in 1 .. Len(seq) |-> IF i > first /\ i <= first + Len(vals) THEN vals[i - first] ELSE seq[i] ]

ReadOuts(C, mem, r) ==
  IF r.tag = 0 THEN { AnyFail(mem) }
  ELSE
  LET T == C.tags[r.tag]  sz == Size(T.type)  i0 == Idx0(r)  off == IF r.svc = "readf" THEN r.off ELSE 0 IN
  IF r.n = 0 THEN { AnyFail(mem), Ok(0, <<>>, mem) }                        \* PERMISSIVE(C05): zero count not in the statement
  ELSE IF i0 + r.n > T.len THEN { Err(255, <<E2105>>, mem) }
  ELSE IF sz = 0 THEN                                                      \* string elements: offsets unsupported (C04 excludes them)
       (IF off # 0 THEN { AnyFail(mem) }
        ELSE { Ok(IF k = r.n THEN 0 ELSE 6, SubSeq(mem[r.tag], i0 + 1, i0 + k), mem) : k \in 1 .. r.n })
  ELSE IF off % sz # 0 THEN { AnyFail(mem) }                                \* PERMISSIVE(C04): mid-element offsets
  ELSE LET first == i0 + off \div sz
           rem   == i0 + r.n - first
           W     == Max2(1, CeilDiv(C.budget, sz))           \* C04: at most the budget rounded up to a whole element
       IN IF rem <= 0 THEN { AnyFail(mem) }                                 \* PERMISSIVE(C05): offset at/after the end of the range
          ELSE { Ok(IF k = rem THEN 0 ELSE 6, SubSeq(mem[r.tag], first + 1, first + k), mem) : k \in 1 .. Min2(rem, W) }

WriteOuts(C, mem, r) ==
  IF r.tag = 0 THEN { AnyFail(mem) }
  ELSE
  LET T == C.tags[r.tag]  U == T.type  sz == Size(U)  i0 == Idx0(r)
      off == IF r.svc = "writef" THEN r.off ELSE 0
      first == IF sz = 0 THEN i0 ELSE i0 + off \div sz
      rangeBad == \/ i0 + r.n > T.len
                  \/ first + Len(r.vals) > i0 + r.n
      rangeOdd == r.n = 0 \/ Len(r.vals) = 0 \/ (sz # 0 /\ off % sz # 0)
                  \/ (r.svc = "write" /\ Len(r.vals) > r.n)
      \* PERMISSIVE(C05): a Write Tag that carries FEWER values than the count it declares is not one of the statement's invalid
      \* requests: it may be refused, or carried out for the values it carries (what the code does)
      short == IF r.svc = "write" /\ Len(r.vals) < r.n THEN { AnyFail(mem) } ELSE {}
      \* PERMISSIVE(C04/C05): a byte offset into variable-length (string) elements has no defined meaning (the code documents
      \* that it is unsupported): the request may fail, or be carried out as if the offset were 0
      strOff == IF sz = 0 /\ off # 0 THEN { AnyFail(mem) } ELSE {}
      conv == [ i \in 1 .. Len(r.vals) |-> Conv(r.typ, U, r.vals[i]) ]
      written == [ mem EXCEPT ![r.tag] = Replace(mem[r.tag], first, conv) ]
  IN strOff \cup short \cup
  IF MustRefuse(r.typ, U) THEN
       (IF rangeBad \/ rangeOdd THEN { Err(255, <<E2107>>, mem), Err(255, <<E2105>>, mem), AnyFail(mem) }
        ELSE { Err(255, <<E2107>>, mem) })
  ELSE IF rangeOdd THEN { AnyFail(mem) }                                    \* PERMISSIVE(C05): inconsistent counts / offsets
  ELSE IF rangeBad THEN
       (IF r.typ = U THEN { Err(255, <<E2105>>, mem) } ELSE { Err(255, <<E2105>>, mem), Err(255, <<E2107>>, mem) })
  ELSE IF r.typ = U THEN { Ok(0, <<>>, written) }
  ELSE IF \A i \in 1 .. Len(conv) : conv[i] # NoRep
       THEN { Ok(0, <<>>, written), Err(255, <<E2107>>, mem) }              \* PERMISSIVE(C05): cross-type write of representable values
       ELSE { AnyFail(mem) }                                                \* C05: a value the tag cannot represent must be refused

\* octets of a whole tag, as Get Attribute Single returns them
TagBytes(C, mem, t) == EncElems(C.tags[t].type, mem[t])
RECURSIVE Split(_, _)
Split(bytes, sz) == IF bytes = <<>> THEN <<>> ELSE <<SubSeq(bytes, 1, sz)>> \o Split(SubSeq(bytes, sz + 1, Len(bytes)), sz)

AttrOuts(C, mem, r) ==
  \* (mode "class0": Get Attribute Single of a CLASS-level attribute of the Message Router, @2/0/1 -- an attribute the tag model does not
  \*  describe: it is answered with success and data the model leaves open; what matters is that it is never served from a tag)
  IF r.tag = 0 /\ r.mode = "class0" /\ r.svc = "gas" THEN { [k |-> "anybytes", st |-> 0, ext |-> <<>>, data |-> <<>>, mem |-> mem] }
  ELSE IF r.tag = 0 THEN { AnyFail(mem) }
  ELSE LET T == C.tags[r.tag]  sz == Size(T.type) IN
  IF r.svc = "gas" THEN { [k |-> "okbytes", st |-> 0, ext |-> <<>>, data |-> TagBytes(C, mem, r.tag), mem |-> mem] }
  ELSE IF sz = 0 \/ Len(r.bytes) # sz * T.len THEN { AnyFail(mem) }
  ELSE LET els == Split(r.bytes, sz) IN
       { Ok(0, <<>>, [ mem EXCEPT ![r.tag] = [ i \in 1 .. Len(els) |-> Canon(T.type, els[i]) ] ]) }

\* Get Attribute List / Get Attributes All on the object holding tag r.tag.  The list reply is, per requested number,
\* the number, a 16-bit status (0, or 0x16 = no such attribute) and the attribute's octets; the all reply is the octets of
\* the attributes numbered 1, 2, ... as far as they exist.  (Objects holding nothing but tags: the domain's business.)
TagsAt(C, c, i, a) == { t \in 1 .. Len(C.tags) : C.tags[t].cia = <<c, i, a>> }
GalItem(C, mem, c, i, a) == LET ts == TagsAt(C, c, i, a) IN
                            U16(a) \o (IF ts = {} THEN U16(22) ELSE U16(0) \o TagBytes(C, mem, CHOOSE t \in ts : TRUE))
RECURSIVE GaaBytes(_, _, _, _, _)
GaaBytes(C, mem, c, i, a) == LET ts == TagsAt(C, c, i, a) IN
                             IF ts = {} THEN <<>> ELSE TagBytes(C, mem, CHOOSE t \in ts : TRUE) \o GaaBytes(C, mem, c, i, a + 1)
ObjOuts(C, mem, r) ==
  IF r.tag = 0 THEN { AnyFail(mem) }
  ELSE LET c == C.tags[r.tag].cia[1]  i == C.tags[r.tag].cia[2] IN
  IF r.svc = "gal"
  THEN (IF r.attrs = <<>> THEN { AnyFail(mem) }                              \* PERMISSIVE: a list of no attributes (the code marks it TODO)
        ELSE { [k |-> "okbytes", st |-> 0, ext |-> <<>>, data |-> Concat([ j \in 1 .. Len(r.attrs) |-> GalItem(C, mem, c, i, r.attrs[j]) ]), mem |-> mem] })
  ELSE LET all == GaaBytes(C, mem, c, i, 1) IN
       IF all = <<>> THEN { AnyFail(mem) } ELSE { [k |-> "okbytes", st |-> 0, ext |-> <<>>, data |-> all, mem |-> mem] }

PlainOuts(C, mem, r) ==
  IF r.svc \in {"read", "readf"} THEN ReadOuts(C, mem, r)
  ELSE IF r.svc \in {"write", "writef"} THEN WriteOuts(C, mem, r)
  ELSE IF r.svc \in {"gal", "gaa"} THEN ObjOuts(C, mem, r)
  ELSE AttrOuts(C, mem, r)
\* A tag may be configured with a forced error code (optional field `error' of its configuration; the simulator's way of playing a
\* failing device): a tag service that would have succeeded is answered with that status and no data instead.
\* DEVIATION(code, Logix.request): the code forces the status AFTER carrying the request out -- a forced-failure WRITE has been
\* performed.  The generic attribute services ignore the forced error.
Forced(C, t) == IF "error" \in DOMAIN C.tags[t] THEN C.tags[t].error ELSE 0
SingleOuts(C, mem, r) ==
  LET outs == PlainOuts(C, mem, r) IN
  IF r.tag = 0 \/ r.svc \notin {"read", "readf", "write", "writef"} THEN outs
  ELSE IF Forced(C, r.tag) = 0 THEN outs
  ELSE { IF o.k = "ok" THEN Err(Forced(C, r.tag), <<>>, o.mem) ELSE o : o \in outs }

----------------------------------------------------------------------------
(* Wire form of requests and of outcomes *)
SvcCode(r) == CASE r.svc = "read" -> 76 [] r.svc = "readf" -> 82 [] r.svc = "write" -> 77 [] r.svc = "writef" -> 83
                [] r.svc = "gas" -> 14 [] r.svc = "sas" -> 16 [] r.svc = "multi" -> 10 [] r.svc = "gal" -> 3 [] r.svc = "gaa" -> 1

ReqPath(C, r) ==
  \* an unknown destination: a name no tag has, an instance the Message Router class does not have, a class nobody has (the
  \* attribute number 1 exists in @2/1: the request must not be served from there)
  LET base == IF r.tag = 0 THEN (IF r.mode = "noinst" THEN CIASegs(<<2, 7, 1>>) ELSE IF r.mode = "noclass" THEN CIASegs(<<119, 1, 1>>)
                                 ELSE IF r.mode = "class0" THEN CIASegs(<<2, 0, 1>>)
                                 ELSE <<SymSeg(UnknownName)>>)
              ELSE IF r.mode = "sym" THEN <<SymSeg(C.tags[r.tag].name)>> ELSE CIASegs(C.tags[r.tag].cia)
  IN IF r.idx >= 0 THEN base \o <<ElemSeg(r.idx)>> ELSE base
\* the object (class, instance) a list / all request goes to
ObjPath(C, r) == IF r.tag = 0 THEN (IF r.mode = "noclass" THEN <<[k |-> "class", v |-> 119], [k |-> "inst", v |-> 1]>>
                                    ELSE <<[k |-> "class", v |-> 2], [k |-> "inst", v |-> 7]>>)
                 ELSE <<[k |-> "class", v |-> C.tags[r.tag].cia[1]], [k |-> "inst", v |-> C.tags[r.tag].cia[2]]>>

RECURSIVE EncReq(_, _)
EncReq(C, r) ==
  CASE r.svc = "read"   -> EncReadTag(ReqPath(C, r), r.n)
    [] r.svc = "readf"  -> EncReadFrag(ReqPath(C, r), r.n, r.off)
    [] r.svc = "write"  -> EncWriteTag(ReqPath(C, r), r.typ, r.n, r.vals)
    [] r.svc = "writef" -> EncWriteFrag(ReqPath(C, r), r.typ, r.n, r.off, r.vals)
    [] r.svc = "gas"    -> EncGetAttrSingle(ReqPath(C, r))
    [] r.svc = "sas"    -> EncSetAttrSingle(ReqPath(C, r), r.bytes)
    [] r.svc = "gal"    -> EncGetAttrList(ObjPath(C, r), r.attrs)
    [] r.svc = "gaa"    -> EncGetAttrAll(ObjPath(C, r))
    [] r.svc = "multi"  -> EncMultiple([ i \in 1 .. Len(r.ms) |-> EncReq(C, r.ms[i]) ])

\* does the reply octets `rpy' (<<>> = the request was answered by a failure outside the CIP reply) express outcome o?
Matches(C, r, o, rpy) ==
  LET svc == SvcCode(r) IN
  CASE o.k = "ok" /\ r.svc \in {"read", "readf"} ->
          rpy = EncReadReply(svc, o.st, <<>>, C.tags[r.tag].type, o.data)
    [] o.k = "ok" -> rpy = EncPlainReply(svc, 0, <<>>)
    [] o.k = "okbytes" -> rpy = EncDataReply(svc, 0, <<>>, o.data)
    [] o.k = "anybytes" -> Len(rpy) > 4 /\ SubSeq(rpy, 1, 4) = <<svc + 128, 0, 0, 0>>
    [] o.k = "err" -> rpy = EncPlainReply(svc, o.st, o.ext)
    [] o.k = "anyfail" -> \/ rpy = <<>>
                          \/ /\ Len(rpy) >= 4 /\ rpy[1] = svc + 128 /\ rpy[2] = 0 /\ rpy[3] \notin {0, 6}
                             /\ Len(rpy) = 4 + 2 * rpy[4]

\* memories that may follow `mem' when request r was answered by rpy (empty set: the reply is not allowed)
After1(C, mem, r, rpy) == { o.mem : o \in { p \in SingleOuts(C, mem, r) : Matches(C, r, p, rpy) } }

----------------------------------------------------------------------------
(* Multiple Service Packet (C07): by definition the left fold of its members. *)
\* decode a bundle body (count, offsets, members) into the member octet strings; <<>> if malformed
DecMSPBody(b) ==
  IF Len(b) < 2 THEN <<>>
  ELSE LET n == LE(SubSeq(b, 1, 2)) IN
       IF n = 0 \/ Len(b) < 2 + 2 * n THEN <<>>
       ELSE LET offs == [ i \in 1 .. n |-> LE(SubSeq(b, 1 + 2 * i, 2 + 2 * i)) ]
                ends == [ i \in 1 .. n |-> IF i < n THEN offs[i + 1] ELSE Len(b) ]
            IN IF \E i \in 1 .. n : offs[i] < 2 + 2 * n \/ offs[i] > ends[i] \/ ends[i] > Len(b) THEN <<>>
               ELSE [ i \in 1 .. n |-> SubSeq(b, offs[i] + 1, ends[i]) ]

RECURSIVE Chain(_, _, _, _)
\* memories after members ms answered by member replies rs, in order
Chain(C, mems, ms, rs) ==
  IF ms = <<>> THEN mems
  ELSE Chain(C, UNION { After1(C, m, Head(ms), Head(rs)) : m \in mems }, Tail(ms), Tail(rs))

AfterMulti(C, mem, r, rpy) ==
  IF Len(rpy) < 4 \/ SubSeq(rpy, 1, 4) # <<138, 0, 0, 0>> THEN {}
  ELSE LET body == SubSeq(rpy, 5, Len(rpy))  rs == DecMSPBody(body) IN
       IF Len(rs) # Len(r.ms) \/ EncMSPBody(rs) # body THEN {}              \* offset table: first 2+2N, then contiguous
       ELSE Chain(C, {mem}, r.ms, rs)

After(C, mem, r, rpy) == IF r.svc = "multi" THEN AfterMulti(C, mem, r, rpy) ELSE After1(C, mem, r, rpy)

ZeroValOf(t) == IF Size(t) = 0 THEN <<>> ELSE Zeros(Size(t))
ZeroMemOf(C) == [ t \in 1 .. Len(C.tags) |-> [ i \in 1 .. C.tags[t].len |-> ZeroValOf(C.tags[t].type) ] ]
=============================================================================
