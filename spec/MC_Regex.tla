------------------------------ MODULE MC_Regex ------------------------------
(* All expressions up to a size bound over the alphabet {a, b, z, P, E} (z is never named in an expression; P and E    *)
(* stand for a two- and a three-octet UTF-8 symbol, substituted by the harness) x all strings up to a length bound     *)
(* over that alphabet plus two symbols sharing lead octets with P and E.                                                *)
EXTENDS RegexBytes, Json
CONSTANTS MaxLen, Size3      \* Size3: include expressions of size 3

\* UTF-8 of a, b, z, pi (the harness also substitutes e acute: no octet in common either way), euro
\* and two symbols no expression names that share lead octets with them: rho (one octet with pi; e grave with e acute),
\* kip sign U+20AD (two octets with euro), rightwards arrow U+2192 (one octet with euro)
EncDef == << <<97>>, <<98>>, <<122>>, <<207, 128>>, <<226, 130, 172>>, <<207, 129>>, <<226, 130, 173>>, <<226, 134, 146>> >>
NSym == Cardinality(Sigma)
A == 1  B == 2  Z == 3  P == 4  E == 5
Name(c) == CASE c = 1 -> "a" [] c = 2 -> "b" [] c = 3 -> "z" [] c = 4 -> "P" [] c = 5 -> "E"

Chr(c) == [k |-> "chr", c |-> c]
Atoms == { Chr(c) : c \in {A, B, P, E} } \cup { [k |-> "any"] }
         \cup { [k |-> "cls", s |-> s] : s \in { {A, B}, {A, P}, {B, E} } } \cup { [k |-> "ncls", s |-> s] : s \in { {A}, {P}, {A, E} } }
Unary(S) == { [k |-> "star", x |-> x] : x \in S } \cup { [k |-> "plus", x |-> x] : x \in S } \cup { [k |-> "opt", x |-> x] : x \in S }
Reps(S)  == { [k |-> "rep", x |-> x, m |-> mn[1], n |-> mn[2]] : x \in S, mn \in { <<0, 1>>, <<1, 2>>, <<2, 2>>, <<0, 2>> } }
Binary(S, T) == { [k |-> "cat", l |-> l, r |-> r] : l \in S, r \in T } \cup { [k |-> "alt", l |-> l, r |-> r] : l \in S, r \in T }
Size2 == Unary(Atoms) \cup Reps(Atoms)
SmallAtoms == { Chr(A), Chr(B), Chr(P), [k |-> "any"], [k |-> "cls", s |-> {A, P}], [k |-> "ncls", s |-> {P}] }
Exprs == Atoms \cup Size2 \cup Binary(Atoms, Atoms)
         \cup (IF Size3 THEN Binary(Size2, SmallAtoms) \cup Binary(SmallAtoms, Size2) \cup Unary(Binary(SmallAtoms, SmallAtoms)) ELSE {})

RECURSIVE Strs(_)
Strs(n) == IF n = 0 THEN { <<>> } ELSE LET S == Strs(n - 1) IN S \cup { Append(s, c) : s \in { x \in S : Len(x) = n - 1 }, c \in Sigma }

\* textual form in the syntax cpppo (greenery) accepts
RECURSIVE Text(_)
SetText(s) == (IF A \in s THEN "a" ELSE "") \o (IF B \in s THEN "b" ELSE "") \o (IF P \in s THEN "P" ELSE "") \o (IF E \in s THEN "E" ELSE "")
Group(e) == IF e.k \in {"chr", "any", "cls", "ncls"} THEN Text(e) ELSE "(" \o Text(e) \o ")"
Text(e) ==
  CASE e.k = "chr" -> Name(e.c) [] e.k = "any" -> "." [] e.k = "cls" -> "[" \o SetText(e.s) \o "]" [] e.k = "ncls" -> "[^" \o SetText(e.s) \o "]"
    [] e.k = "cat" -> (IF e.l.k = "alt" THEN Group(e.l) ELSE Text(e.l)) \o (IF e.r.k = "alt" THEN Group(e.r) ELSE Text(e.r))
    [] e.k = "alt" -> Text(e.l) \o "|" \o Text(e.r)
    [] e.k = "star" -> Group(e.x) \o "*" [] e.k = "plus" -> Group(e.x) \o "+" [] e.k = "opt" -> Group(e.x) \o "?"
    [] e.k = "rep" -> Group(e.x) \o "{" \o ToString(e.m) \o "," \o ToString(e.n) \o "}"

\* all strings of length n in lexicographic order, and all up to MaxLen (shortest first): the canonical string list
RECURSIVE Level(_), UpTo(_)
Level(n) == IF n = 0 THEN << <<>> >> ELSE LET L == Level(n - 1) IN [ i \in 1 .. (Len(L) * NSym) |-> Append(L[((i - 1) \div NSym) + 1], ((i - 1) % NSym) + 1) ]
UpTo(n) == IF n = 0 THEN Level(0) ELSE UpTo(n - 1) \o Level(n)
StrList == UpTo(MaxLen)
SemanticsAgree(e) == \A s \in Strs(IF MaxLen > 3 THEN 3 ELSE MaxLen) : Nullable(DerivStr(e, s)) = Matches(e, s)
\* on input without multi-octet symbols the coded translation of an expression naming none IS the property's reading
CodedKeepsPlain(e) == Multi(e) = {} => \A s \in Strs(IF MaxLen > 3 THEN 3 ELSE MaxLen) : Plain(e, s) =>
                         LET x == Expected(e, s) y == Coded(e, s) IN y.n = x.n /\ y.accept = x.accept
EmitExpr(e) == /\ SemanticsAgree(e)
               /\ CodedKeepsPlain(e)
               /\ PrintT(ToJson([k |-> "re", text |-> Text(e), res |-> [ i \in 1 .. Len(StrList) |->
                                    LET x == Expected(e, StrList[i]) IN <<x.n, IF x.accept THEN 1 ELSE 0>> ],
                                  sup |-> Supported(e),
                                  cod |-> IF Supported(e) THEN [ i \in 1 .. Len(StrList) |->
                                    LET x == Coded(e, StrList[i]) IN <<x.n, IF x.accept THEN 1 ELSE 0>> ] ELSE <<>>]))
ASSUME PrintT(ToJson([k |-> "strs", strs |-> StrList]))
VARIABLE ex
RInit == ex \in Exprs
RNext == FALSE /\ UNCHANGED ex
REmit == EmitExpr(ex)
=============================================================================
