INIT TInit
NEXT TNext
INVARIANT Check
CHECK_DEADLOCK FALSE
CONSTANTS
 Addrs = {}
 Counts = {}
 MaxN = 0
 Reaches = {}
 Limits = {}
