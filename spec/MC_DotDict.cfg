SPECIFICATION Spec
CHECK_DEADLOCK FALSE
VIEW SDView
INVARIANT WellFormed
INVARIANT IterationMatchesLookup
INVARIANT InteriorLookup
PROPERTY ReadOnly
PROPERTY DelOnlyLeaves
CONSTANTS
 KeyNames <- MCKeyNames
 Reserved = {4}
 MaxDepth = 2
 Rich = FALSE
