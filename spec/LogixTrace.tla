----------------------------- MODULE LogixTrace -----------------------------
(***************************************************************************)
(* Validation of executions of the real simulator against Logix.            *)
(* One NDJSON line per trace:                                               *)
(*   {"cfg": C, "fan": b, "from": mem, "ev": [{"r": request, "rpy": octets, "mem": mem after}, ...]}   *)
(* fan = FALSE: the events are one history starting in `from';              *)
(* fan = TRUE : every event was executed on a fresh device set to `from'    *)
(*              (the per-transition replay of TLC-emitted cases).           *)
(* rpy = <<>> records a request answered by a failure outside a CIP reply   *)
(* (the request was aborted with an encapsulation-level error).             *)
(* Optional "xfer": {"on": TRUE, "kind": "read", "data": octets} -- the events are one fragmented read     *)
(* transfer whose fragments must carry status 0x06 ... 0x06, 0x00 and concatenate to `data';                *)
(* {"on": TRUE, "kind": "write", "final": mem} -- a tiling of fragmented writes that must end in `final'.   *)
(* A step is accepted iff the reply is one of the outcomes Logix!Outs       *)
(* allows in the current memory and the memory the device shows afterwards  *)
(* is that outcome's memory.                                                *)
(***************************************************************************)
EXTENDS Logix, Json, IOUtils, TLCExt

Traces == ndJsonDeserialize(IOEnv.TRACE_FILE)

VARIABLES t, l
tvars == <<vars, t, l>>

TInit == /\ t \in 1 .. Len(Traces) /\ l = 1
         /\ mem = Traces[t].from /\ op = [req |-> "none"] /\ depth = 0

Ev == Traces[t].ev
Before == IF Traces[t].fan THEN Traces[t].from ELSE mem

TStep == /\ l <= Len(Ev)
         /\ Ev[l].mem \in After(Traces[t].cfg, Before, Ev[l].r, Ev[l].rpy)
         /\ mem' = Ev[l].mem /\ l' = l + 1
         /\ UNCHANGED <<t, op, depth>>

TNext == TStep
TSpec == TInit /\ [][TNext]_tvars

Why == IF After(Traces[t].cfg, Before, Ev[l].r, Ev[l].rpy) = {} THEN "reply-not-allowed" ELSE "memory-differs"
\* total verdict: a trace that cannot be continued prints where and why; TLC keeps going
Verdict == (l <= Len(Ev) /\ ~ENABLED TStep) => PrintT(ToJson([tid |-> t, at |-> l, why |-> Why]))

\* ---- transfer-level verdict (C04), evaluated when the whole trace has been accepted
X == Traces[t].xfer
FragData == Concat([ i \in 1 .. Len(Ev) |-> SubSeq(Ev[i].rpy, 7, Len(Ev[i].rpy)) ])
FragStatusOK == \A i \in 1 .. Len(Ev) : Len(Ev[i].rpy) >= 4 /\ Ev[i].rpy[3] = (IF i < Len(Ev) THEN 6 ELSE 0)
XferOK == IF X.kind = "read" THEN Len(Ev) >= 1 /\ FragStatusOK /\ FragData = X.data
          ELSE mem = X.final
XferVerdict == (l = Len(Ev) + 1 /\ X.on /\ ~XferOK) => PrintT(ToJson([tid |-> t, at |-> Len(Ev), why |-> "transfer-incomplete-or-wrong"]))
=============================================================================
