----------------------------- MODULE LogixTrace -----------------------------
(***************************************************************************)
(* Validation of executions of the real simulator against Logix.            *)
(* One NDJSON line per trace:                                               *)
(*   {"cfg": C, "fan": b, "from": mem, "ev": [{"r": request, "rpy": octets, "mem": mem after}, ...]}   *)
(* fan = FALSE: the events are one history starting in `from';              *)
(* fan = TRUE : every event was executed on a fresh device set to `from'    *)
(*              (the per-transition replay of TLC-emitted cases).           *)
(* rpy = <<>> records a request answered by a failure outside a CIP reply   *)
(* (the request was aborted with an encapsulation-level error).             *)
(* Optional "xfer": {"on": TRUE, "kind": "read", "data": octets} -- the events are one fragmented read     *)
(* transfer whose fragments must carry status 0x06 ... 0x06, 0x00 and concatenate to `data';                *)
(* {"on": TRUE, "kind": "write", "final": mem} -- a tiling of fragmented writes that must end in `final'.   *)
(* A step is accepted iff the reply is one of the outcomes Logix!Outs       *)
(* allows in the current memory and the memory the device shows afterwards  *)
(* is that outcome's memory.                                                *)
(***************************************************************************)
EXTENDS Logix, Json, IOUtils, TLCExt

Traces == ndJsonDeserialize(IOEnv.TRACE_FILE)

VARIABLES t, l
tvars == <<vars, t, l>>

TInit == /\ t \in 1 .. Len(Traces) /\ l = 1
         /\ mem = Traces[t].from /\ op = [req |-> "none"] /\ depth = 0

Ev == Traces[t].ev
Before == IF Traces[t].fan THEN Traces[t].from ELSE mem

\* C07 three-way: a bundle event may carry the replies (`singles') and final memory (`smem') obtained by sending
\* its members one by one to an identically initialised device; the member replies located through the bundle's
\* offset table must be exactly those (a member whose single form was aborted outside CIP, <<>>, is not compared).
SinglesOK(e) ==
  IF e.r.svc # "multi" THEN TRUE ELSE
  LET rs == DecMSPBody(SubSeq(e.rpy, 5, Len(e.rpy))) IN
     /\ Len(rs) = Len(e.singles)
     /\ \A i \in 1 .. Len(rs) : e.singles[i] = <<>> \/ e.singles[i] = rs[i]
     /\ e.smem = e.mem

TStep == /\ l <= Len(Ev)
         /\ Ev[l].mem \in After(Traces[t].cfg, Before, Ev[l].r, Ev[l].rpy)
         /\ SinglesOK(Ev[l])
         /\ mem' = Ev[l].mem /\ l' = l + 1
         /\ UNCHANGED <<t, op, depth>>

TNext == TStep
TSpec == TInit /\ [][TNext]_tvars

Why == IF After(Traces[t].cfg, Before, Ev[l].r, Ev[l].rpy) = {} THEN "reply-not-allowed"
       ELSE IF Ev[l].mem \notin After(Traces[t].cfg, Before, Ev[l].r, Ev[l].rpy) THEN "memory-differs"
       ELSE "bundle-differs-from-singles"
\* total verdict: a trace that cannot be continued prints where and why; TLC keeps going
Verdict == (l <= Len(Ev) /\ ~ENABLED TStep) => PrintT(ToJson([tid |-> t, at |-> l, why |-> Why]))

\* ---- transfer-level verdict (C04), evaluated when the whole trace has been accepted
X == Traces[t].xfer
FragData == Concat([ i \in 1 .. Len(Ev) |-> SubSeq(Ev[i].rpy, 7, Len(Ev[i].rpy)) ])
FragStatusOK == \A i \in 1 .. Len(Ev) : Len(Ev[i].rpy) >= 4 /\ Ev[i].rpy[3] = (IF i < Len(Ev) THEN 6 ELSE 0)
XferOK == IF X.kind = "read" THEN Len(Ev) >= 1 /\ FragStatusOK /\ FragData = X.data
          ELSE mem = X.final
XferVerdict == (l = Len(Ev) + 1 /\ X.on /\ ~XferOK) => PrintT(ToJson([tid |-> t, at |-> Len(Ev), why |-> "transfer-incomplete-or-wrong"]))
=============================================================================
