SPECIFICATION Spec
CHECK_DEADLOCK FALSE
INVARIANT DesignPost
INVARIANT Pending
PROPERTY Terminates
CONSTANTS
 Addrs = {1, 2, 3, 4, 6, 9, 9997, 9998, 9999, 10000, 10001, 10003}
 Counts = {1, 2, 3, 5, 8}
 MaxN = 3
 Reaches = {0, 1, 2, 3}
 Limits = {0, 1, 2, 5}
