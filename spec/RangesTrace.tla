---------------------------- MODULE RangesTrace ----------------------------
(* Validation of recorded merge / shatter calls of the real code against Ranges!Post.      *)
(* One NDJSON line per call: {"k":"merge","inp":[[a,c]..],"reach":r,"limit":l,"out":[..]} *)
(* (every line also carries "exc": "" or the exception class that escaped)               *)
(*                        or {"k":"shatter","a":a,"c":c,"limit":l,"out":[..]}             *)
(* Each line becomes one initial state: the final state of the sweep as the code left it. *)
EXTENDS Ranges, IOUtils, TLCExt

Traces == ndJsonDeserialize(IOEnv.TRACE_FILE)

VARIABLE t
TInit == /\ t \in 1 .. Len(Traces)
         /\ LET T == Traces[t] IN
            IF T.k = "merge"
            THEN inp = T.inp /\ reach = T.reach /\ limit = T.limit /\ out = T.out
                 /\ i = Len(T.inp) + 1 /\ base = 0 /\ len = 0 /\ pc = "done"
            ELSE inp = <<<<T.a, T.c>>>> /\ reach = 0 /\ limit = T.limit /\ out = T.out
                 /\ i = 0 /\ base = T.a /\ len = T.c /\ pc = "shattered"
TNext == UNCHANGED <<vars, t>>

Verdict == IF Traces[t].exc # "" THEN "Raised"
           ELSE IF pc = "done" THEN PostWhy(out, inp, reach, limit)
           ELSE IF ShatterPost(out, base, len, limit) THEN "ok" ELSE "ShatterPost"
\* total verdict: never stops TLC, prints the failing trace ids and clauses
Check == Verdict = "ok" \/ PrintT(ToJson([tid |-> t, why |-> Verdict]))
=============================================================================
