INIT EmitInit
NEXT EmitNext
CONSTRAINT EmitInputs
CHECK_DEADLOCK FALSE
CONSTANTS
 Addrs = {1, 2, 3, 4, 6, 9, 9997, 9998, 9999, 10000, 10001, 10003}
 Counts = {1, 2, 3, 5, 8}
 MaxN = 3
 Reaches = {0}
 Limits = {0}
