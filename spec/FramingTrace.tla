----------------------------- MODULE FramingTrace ---------------------------
(* C02, client side: the real client.__next__ fed a reply octet stream in arbitrary chunks (then end-of-stream) must    *)
(* return exactly the frames the encapsulation headers delimit (24 + declared length octets each), in order.            *)
(*   {"stream": octets, "got": [[command, sender context octets], ...], "end": "stop" | "error",                        *)
(*    "when": [octets received when message k was returned], "cuts": [cumulative chunk ends], "late": k returned only after  *)
(*    end-of-stream had been seen (0: none)}                                                                                *)
(* A message is returned as soon as its last octet has been received: not only after later octets (or the end) arrive.      *)
EXTENDS CIPWire, Json, IOUtils, TLC
Traces == ndJsonDeserialize(IOEnv.TRACE_FILE)
VARIABLE t
TInit == t \in 1 .. Len(Traces)
TNext == FALSE /\ UNCHANGED t
X == Traces[t]
RECURSIVE Frames(_, _)
\* <<command, context>> of every complete frame of stream s from offset at; a trailing partial frame is not a message
Frames(s, at) == IF Len(s) < at + 24 THEN <<>>
                 ELSE LET n == FrameLen(s, at) IN
                      IF Len(s) < at + n THEN <<>>
                      ELSE << <<LE(SubSeq(s, at + 1, at + 2)), SubSeq(s, at + 13, at + 20)>> >> \o Frames(s, at + n)
RECURSIVE Consumed(_, _)
Consumed(s, at) == IF Len(s) < at + 24 \/ Len(s) < at + FrameLen(s, at) THEN at ELSE Consumed(s, at + FrameLen(s, at))
RECURSIVE Ends(_, _)
\* end offsets of the complete frames
Ends(s, at) == IF Len(s) < at + 24 \/ Len(s) < at + FrameLen(s, at) THEN <<>> ELSE <<at + FrameLen(s, at)>> \o Ends(s, at + FrameLen(s, at))
\* the first chunk boundary at or after offset e: the octets received when the frame ending at e became complete
FirstCut(e) == LET ok == { k \in 1 .. Len(X.cuts) : X.cuts[k] >= e } IN X.cuts[CHOOSE k \in ok : \A j \in ok : k <= j]
Prompt == /\ X.late = 0
          /\ \A k \in 1 .. Len(X.when) : k <= Len(Ends(X.stream, 0)) => X.when[k] = FirstCut(Ends(X.stream, 0)[k])
Why == IF X.got # Frames(X.stream, 0) THEN "messages-differ-from-frame-boundaries"
       ELSE IF ~Prompt THEN "complete-message-returned-only-after-later-input"
       ELSE IF Consumed(X.stream, 0) = Len(X.stream) /\ X.end # "stop" THEN "clean-end-of-stream-reported-as-error"
       ELSE IF Consumed(X.stream, 0) # Len(X.stream) /\ X.end = "stop" THEN "partial-frame-at-end-not-reported" ELSE "ok"
Verdict == Why = "ok" \/ PrintT(ToJson([tid |-> t, why |-> Why]))
=============================================================================
