----------------------------- MODULE FramingTrace ---------------------------
(* C02, client side: the real client.__next__ fed a reply octet stream in arbitrary chunks (then end-of-stream) must    *)
(* return exactly the frames the encapsulation headers delimit (24 + declared length octets each), in order.            *)
(*   {"stream": octets, "got": [[command, sender context octets], ...], "end": "stop" | "error"}                        *)
EXTENDS CIPWire, Json, IOUtils, TLC
Traces == ndJsonDeserialize(IOEnv.TRACE_FILE)
VARIABLE t
TInit == t \in 1 .. Len(Traces)
TNext == FALSE /\ UNCHANGED t
X == Traces[t]
RECURSIVE Frames(_, _)
\* <<command, context>> of every complete frame of stream s from offset at; a trailing partial frame is not a message
Frames(s, at) == IF Len(s) < at + 24 THEN <<>>
                 ELSE LET n == FrameLen(s, at) IN
                      IF Len(s) < at + n THEN <<>>
                      ELSE << <<LE(SubSeq(s, at + 1, at + 2)), SubSeq(s, at + 13, at + 20)>> >> \o Frames(s, at + n)
RECURSIVE Consumed(_, _)
Consumed(s, at) == IF Len(s) < at + 24 \/ Len(s) < at + FrameLen(s, at) THEN at ELSE Consumed(s, at + FrameLen(s, at))
Why == IF X.got # Frames(X.stream, 0) THEN "messages-differ-from-frame-boundaries"
       ELSE IF Consumed(X.stream, 0) = Len(X.stream) /\ X.end # "stop" THEN "clean-end-of-stream-reported-as-error"
       ELSE IF Consumed(X.stream, 0) # Len(X.stream) /\ X.end = "stop" THEN "partial-frame-at-end-not-reported" ELSE "ok"
Verdict == Why = "ok" \/ PrintT(ToJson([tid |-> t, why |-> Why]))
=============================================================================
