------------------------------ MODULE CIPWire -------------------------------
(***************************************************************************)
(* The CIP / EtherNet-IP layout tables as operators: an encoder written     *)
(* directly from the tables (CIP Vol 1 App. C, Vol 2 ch. 2/3, Logix 5000    *)
(* Data Access manual 1756-PM020), sharing nothing with cpppo.               *)
(*                                                                         *)
(* Part 1: element types, EPATH, status, typed data, the Logix tag          *)
(* services, the attribute services and the Multiple Service Packet.        *)
(* Part 2 (further down): CPF, Unconnected Send, Forward Open/Close,        *)
(* the encapsulation header and commands.                                   *)
(***************************************************************************)
EXTENDS Bytes, Naturals, Sequences, FiniteSets

----------------------------------------------------------------------------
(* Element types *)

NumTypes == {"BOOL", "SINT", "INT", "DINT", "LINT", "USINT", "UINT", "UDINT", "ULINT", "REAL", "LREAL"}
StrTypes == {"SSTRING", "STRING"}
AllTypes == NumTypes \cup StrTypes

TypeCode(t) ==
  CASE t = "BOOL" -> 193 [] t = "SINT" -> 194 [] t = "INT" -> 195 [] t = "DINT" -> 196 [] t = "LINT" -> 197
    [] t = "USINT" -> 198 [] t = "UINT" -> 199 [] t = "UDINT" -> 200 [] t = "ULINT" -> 201
    [] t = "REAL" -> 202 [] t = "LREAL" -> 203 [] t = "STRING" -> 208 [] t = "SSTRING" -> 218

\* size in octets of one element (fixed-size types)
Size(t) ==
  CASE t \in {"BOOL", "SINT", "USINT"} -> 1 [] t \in {"INT", "UINT"} -> 2
    [] t \in {"DINT", "UDINT", "REAL"} -> 4 [] t \in {"LINT", "ULINT", "LREAL"} -> 8
    [] OTHER -> 0

IntTypes    == {"SINT", "INT", "DINT", "LINT", "USINT", "UINT", "UDINT", "ULINT"}
SignedTypes == {"SINT", "INT", "DINT", "LINT"}
FloatTypes  == {"REAL", "LREAL"}

\* An element value is a byte string: for fixed-size types the element's little-endian octets
\* (BOOL: <<0>> or <<255>>), for string types the characters.
EncElem(t, v) ==
  IF t = "SSTRING" THEN <<Len(v)>> \o v
  ELSE IF t = "STRING" THEN PadEven(U16(Len(v)) \o v)
  ELSE v

EncElems(t, vs) == Concat([ i \in 1 .. Len(vs) |-> EncElem(t, vs[i]) ])

(* value domains: boundary values of every type, as element octets *)
BVals(t) ==
  CASE t = "BOOL"  -> << <<0>>, <<255>>, <<1>>, <<128>> >>
    [] t = "SINT"  -> << <<1>>, <<127>>, <<128>>, <<255>> >>
    [] t = "USINT" -> << <<1>>, <<200>>, <<127>>, <<255>> >>
    [] t = "INT"   -> << <<1, 0>>, <<255, 127>>, <<0, 128>>, <<255, 255>> >>
    [] t = "UINT"  -> << <<1, 0>>, <<64, 156>>, <<255, 127>>, <<255, 255>> >>
    [] t = "DINT"  -> << <<1, 0, 0, 0>>, <<255, 255, 255, 127>>, <<0, 0, 0, 128>>, <<255, 255, 255, 255>> >>
    [] t = "UDINT" -> << <<1, 0, 0, 0>>, <<0, 94, 208, 178>>, <<255, 255, 255, 127>>, <<255, 255, 255, 255>> >>
    [] t = "LINT"  -> << <<1, 0, 0, 0, 0, 0, 0, 0>>, <<255, 255, 255, 255, 255, 255, 255, 127>>,
                         <<0, 0, 0, 0, 0, 0, 0, 128>>, <<255, 255, 255, 255, 255, 255, 255, 255>> >>
    [] t = "ULINT" -> << <<1, 0, 0, 0, 0, 0, 0, 0>>, <<0, 0, 0, 0, 1, 0, 0, 128>>,
                         <<255, 255, 255, 255, 255, 255, 255, 127>>, <<255, 255, 255, 255, 255, 255, 255, 255>> >>
    \* (a non-integral value first: the small catalogues use the first two values only)
    [] t = "REAL"  -> << <<0, 0, 32, 64>>, <<0, 0, 128, 191>>, <<0, 0, 128, 63>>, <<255, 255, 127, 127>> >>
    [] t = "LREAL" -> << <<0, 0, 0, 0, 0, 0, 4, 64>>, <<0, 0, 0, 0, 0, 0, 240, 191>>, <<0, 0, 0, 0, 0, 0, 240, 63>>,
                         <<255, 255, 255, 255, 255, 255, 239, 127>> >>
    \* (string octets are ISO-8859-1 characters: one with a high octet second -- the small catalogues use the first two values only --
    \*  and one whose octets happen to be well-formed UTF-8 for a character beyond U+00FF)
    [] t = "SSTRING" -> << <<97>>, <<99, 97, 102, 233>>, <<>>, <<226, 130, 172>> >>
    [] t = "STRING"  -> << <<97>>, <<99, 97, 102, 233>>, <<>>, <<226, 130, 172>> >>


----------------------------------------------------------------------------
(* EPATH.  A segment is a record with field k:                              *)
(*   [k |-> "class"|"inst"|"attr"|"elem"|"conn", v |-> n]   (n < 2^31)      *)
(*   [k |-> "sym",  s |-> chars]                                            *)
(*   [k |-> "port", p |-> port, l |-> link number]                          *)
(*   [k |-> "porta", p |-> port, a |-> address chars]                       *)

LogicalBase(k) == CASE k = "class" -> 32 [] k = "inst" -> 36 [] k = "elem" -> 40 [] k = "conn" -> 44 [] k = "attr" -> 48

EncSeg(g) ==
  IF g.k = "sym" THEN PadEven(<<145, Len(g.s)>> \o g.s)
  ELSE IF g.k = "port" THEN
         (IF g.p < 15 THEN <<g.p, g.l>> ELSE <<15>> \o U16(g.p) \o <<g.l>>)        \* extended port; padded to even below
  ELSE IF g.k = "porta" THEN
         PadEven((IF g.p < 15 THEN <<16 + g.p, Len(g.a)>> ELSE <<31, Len(g.a)>> \o U16(g.p)) \o g.a)
  ELSE IF g.k = "elem32" THEN <<LogicalBase("elem") + 2, 0>> \o U32L(g.w)          \* 32-bit element id given as limbs <<lo, hi>>
  ELSE IF g.v < 256 THEN <<LogicalBase(g.k), g.v>>
  ELSE IF g.v < 65536 THEN <<LogicalBase(g.k) + 1, 0>> \o U16(g.v)
  ELSE <<LogicalBase(g.k) + 2, 0>> \o U32(g.v)

EncSegs(segs) == Concat([ i \in 1 .. Len(segs) |-> PadEven(EncSeg(segs[i])) ])
\* EPATH with its leading size (in words)
EncEPATH(segs)  == LET b == EncSegs(segs) IN <<Len(b) \div 2>> \o b
\* "padded" EPATH (size, pad octet, segments), used by Unconnected Send route path / Forward Open
EncEPATHpad(segs) == LET b == EncSegs(segs) IN <<Len(b) \div 2, 0>> \o b

SymSeg(name)  == [k |-> "sym", s |-> name]
ElemSeg(i)    == [k |-> "elem", v |-> i]
CIASegs(cia)  == << [k |-> "class", v |-> cia[1]], [k |-> "inst", v |-> cia[2]], [k |-> "attr", v |-> cia[3]] >>

----------------------------------------------------------------------------
(* Decoding of EPATH segments (the inverse table), used to check that the encoding is uniquely decodable. *)
\* one segment at the head of octets b: <<segment, octets consumed>>, or <<"bad", 0>>
DecSeg(b) ==
  IF Len(b) < 2 THEN <<"bad", 0>>
  ELSE LET h == b[1] IN
  IF h = 145 THEN LET n == b[2]  tot == 2 + n + (n % 2) IN
       IF Len(b) < tot THEN <<"bad", 0>> ELSE << [k |-> "sym", s |-> SubSeq(b, 3, 2 + n)], tot >>
  ELSE IF h \in {32, 36, 40, 44, 48} THEN
       << [k |-> (CASE h = 32 -> "class" [] h = 36 -> "inst" [] h = 40 -> "elem" [] h = 44 -> "conn" [] h = 48 -> "attr"), v |-> b[2]], 2 >>
  ELSE IF h \in {33, 37, 41, 45, 49} THEN
       IF Len(b) < 4 THEN <<"bad", 0>> ELSE
       << [k |-> (CASE h = 33 -> "class" [] h = 37 -> "inst" [] h = 41 -> "elem" [] h = 45 -> "conn" [] h = 49 -> "attr"), v |-> LE(SubSeq(b, 3, 4))], 4 >>
  ELSE IF h = 42 THEN
       IF Len(b) < 6 THEN <<"bad", 0>> ELSE << [k |-> "elem32", w |-> <<LE(SubSeq(b, 3, 4)), LE(SubSeq(b, 5, 6))>>], 6 >>
  ELSE IF h >= 1 /\ h <= 14 THEN << [k |-> "port", p |-> h, l |-> b[2]], 2 >>
  ELSE IF h = 15 THEN IF Len(b) < 4 THEN <<"bad", 0>> ELSE << [k |-> "port", p |-> LE(SubSeq(b, 2, 3)), l |-> b[4]], 4 >>
  ELSE IF h >= 17 /\ h <= 30 THEN LET n == b[2]  tot == 2 + n + (n % 2) IN
       IF Len(b) < tot THEN <<"bad", 0>> ELSE << [k |-> "porta", p |-> h - 16, a |-> SubSeq(b, 3, 2 + n)], tot >>
  ELSE IF h = 31 THEN LET n == b[2]  tot == 4 + n + (n % 2) IN
       IF Len(b) < tot THEN <<"bad", 0>> ELSE << [k |-> "porta", p |-> LE(SubSeq(b, 3, 4)), a |-> SubSeq(b, 5, 4 + n)], tot >>
  ELSE <<"bad", 0>>
RECURSIVE DecSegs(_)
DecSegs(b) == IF b = <<>> THEN <<>>
              ELSE LET d == DecSeg(b) IN IF d[2] = 0 THEN <<"bad">> ELSE <<d[1]>> \o DecSegs(SubSeq(b, d[2] + 1, Len(b)))
\* canonical form of a 32-bit element given by value (< 65536 fits narrower formats; >= 65536 decodes as limbs)
DecEPATH(b) == IF Len(b) < 1 \/ Len(b) # 1 + 2 * b[1] THEN <<"bad">> ELSE DecSegs(SubSeq(b, 2, Len(b)))

----------------------------------------------------------------------------
(* Status: general status, size of extended status in words, the words *)
EncStatus(st, ext) == <<st, Len(ext)>> \o Concat([ i \in 1 .. Len(ext) |-> U16(ext[i]) ])

----------------------------------------------------------------------------
(* Logix tag services (requests) *)
EncReadTag(path, n)            == <<76>> \o EncEPATH(path) \o U16(n)
EncReadFrag(path, n, off)      == <<82>> \o EncEPATH(path) \o U16(n) \o U32(off)
EncWriteTag(path, t, n, vals)  == <<77>> \o EncEPATH(path) \o U16(TypeCode(t)) \o U16(n) \o EncElems(t, vals)
EncWriteFrag(path, t, n, off, vals) ==
   <<83>> \o EncEPATH(path) \o U16(TypeCode(t)) \o U16(n) \o U32(off) \o EncElems(t, vals)
EncGetAttrSingle(path)         == <<14>> \o EncEPATH(path)
EncSetAttrSingle(path, bytes)  == <<16>> \o EncEPATH(path) \o bytes
EncGetAttrAll(path)            == <<1>> \o EncEPATH(path)
\* Get Attribute List: the count of attribute numbers, then the numbers (16 bits each)
EncGetAttrList(path, attrs)    == <<3>> \o EncEPATH(path) \o U16(Len(attrs)) \o Concat([ i \in 1 .. Len(attrs) |-> U16(attrs[i]) ])

(* Replies: service | 0x80, reserved 0, status, [type, data] *)
EncReadReply(svc, st, ext, t, vals) ==
   <<svc + 128, 0>> \o EncStatus(st, ext)
   \o (IF st \in {0, 6} THEN U16(TypeCode(t)) \o EncElems(t, vals) ELSE <<>>)
EncPlainReply(svc, st, ext) == <<svc + 128, 0>> \o EncStatus(st, ext)
EncDataReply(svc, st, ext, bytes) == <<svc + 128, 0>> \o EncStatus(st, ext) \o (IF st = 0 THEN bytes ELSE <<>>)

----------------------------------------------------------------------------
(* Multiple Service Packet: count, offsets from the start of the count field, members *)
RECURSIVE MSPOffsets(_, _)
MSPOffsets(msgs, at) == IF msgs = <<>> THEN <<>> ELSE <<at>> \o MSPOffsets(Tail(msgs), at + Len(Head(msgs)))

EncMSPBody(msgs) ==
   LET n == Len(msgs)
       offs == MSPOffsets(msgs, 2 + 2 * n)
   IN U16(n) \o Concat([ i \in 1 .. n |-> U16(offs[i]) ]) \o Concat(msgs)

MRPath == << [k |-> "class", v |-> 2], [k |-> "inst", v |-> 1] >>
EncMultiple(msgs)      == <<10>> \o EncEPATH(MRPath) \o EncMSPBody(msgs)
EncMultipleReply(st, ext, msgs) == <<138, 0>> \o EncStatus(st, ext) \o (IF st \in {0, 30} THEN EncMSPBody(msgs) ELSE <<>>)

\* The offset-table law of C07 on an encoded body
MSPOffsetLaw(msgs) ==
   LET n == Len(msgs)  offs == MSPOffsets(msgs, 2 + 2 * n)
   IN /\ (n > 0 => offs[1] = 2 + 2 * n)
      /\ \A i \in 1 .. (n - 1) : offs[i + 1] = offs[i] + Len(msgs[i])

----------------------------------------------------------------------------
(* Part 2: encapsulation, Common Packet Format, Unconnected Send.           *)
(* Session handles and sender contexts are octet strings (4 and 8 octets).  *)

EncEnip(cmd, sess, status, ctx, options, payload) ==
   U16(cmd) \o U16(Len(payload)) \o sess \o U32(status) \o ctx \o U32(options) \o payload

CmdRegister == 101   CmdUnregister == 102   CmdSendRR == 111   CmdSendUnit == 112
CmdListServices == 4   CmdListIdentity == 99   CmdListInterfaces == 100   CmdLegacy == 1

RegisterPayload == U16(1) \o U16(0)            \* protocol version 1, options 0

\* CPF: item count, then items [type, length, data]
EncCPFItem(ty, data) == U16(ty) \o U16(Len(data)) \o data
EncCPF(items) == U16(Len(items)) \o Concat(items)
NullAddr == EncCPFItem(0, <<>>)
UnconnData(msg) == EncCPFItem(178, msg)                          \* 0x00B2
ConnAddr(cid) == EncCPFItem(161, cid)                            \* 0x00A1, 4-octet connection id
ConnData(seq, msg) == EncCPFItem(177, U16(seq) \o msg)           \* 0x00B1

\* SendRRData / SendUnitData body: interface handle (0), timeout, CPF
EncSendData(timeout, items) == U32(0) \o U16(timeout) \o EncCPF(items)

\* Unconnected Send (service 0x52 to the Connection Manager 6/1): priority/tick, ticks, message size, message,
\* pad to even, route path size in words, reserved, route path
CMPath == << [k |-> "class", v |-> 6], [k |-> "inst", v |-> 1] >>
EncUnconnectedSend(prio, ticks, msg, route) ==
   <<82>> \o EncEPATH(CMPath) \o <<prio, ticks>> \o U16(Len(msg)) \o PadEven(msg) \o EncEPATHpad(route)

\* A complete SendRRData request frame carrying CIP message `msg': bare ("simple") or wrapped with a route path
\* List Identity reply item (0x000C): protocol version, socket address (network byte order), Identity attributes 1..7, state
BE16(v) == << (v \div 256) % 256, v % 256 >>
EncIdentityItem(x) == EncCPFItem(12, U16(x.version) \o BE16(x.family) \o BE16(x.port) \o x.addr \o Zeros(8) \o U16(x.vendor) \o U16(x.devtype)
                                     \o U16(x.product) \o U16(x.revision) \o U16(x.status) \o x.serial \o <<Len(x.name)>> \o x.name \o <<x.state>>)
\* List Services reply item (0x0100): version, capability flags, NUL-terminated service name
EncServicesItem(x) == EncCPFItem(256, U16(x.version) \o U16(x.capability) \o x.name \o <<0>>)
\* C08: a tag changed without an acknowledgement is not corrupted if what it now holds was literally sent: for every changed
\* tag, the octets of its changed element range appear contiguously in the input (a complete write that was carried out
\* although the envelope around it was damaged and the request was answered with an error)
ContainsOctets(big, small) == \E off \in 0 .. (Len(big) - Len(small)) : SubSeq(big, off + 1, off + Len(small)) = small
WrittenFromInput(before, after, octets) ==
  \A tg \in 1 .. Len(before) :
     IF before[tg] = after[tg] THEN TRUE ELSE
     LET ch == { i \in 1 .. Len(before[tg]) : before[tg][i] # after[tg][i] }
         lo == CHOOSE i \in ch : \A j \in ch : i <= j
         hi == CHOOSE i \in ch : \A j \in ch : j <= i
     IN ContainsOctets(octets, Concat([ k \in 1 .. (hi - lo + 1) |-> after[tg][lo + k - 1] ]))
\* reply item of the legacy command 0x0001: version, an unknown word, socket address (network order), dotted-quad text NUL-padded to 16
EncLegacyItem(x) == EncCPFItem(1, U16(x.version) \o U16(0) \o BE16(x.family) \o BE16(x.port) \o x.addr \o Zeros(8) \o x.text \o Zeros(16 - Len(x.text)))
RRFrame(sess, ctx, timeout, cip) == EncEnip(CmdSendRR, sess, 0, ctx, 0, EncSendData(timeout, <<NullAddr, UnconnData(cip)>>))

\* total length of the frame starting at offset `at' (0-based) of an octet stream, if its header is complete
FrameLen(stream, at) == 24 + LE(SubSeq(stream, at + 3, at + 4))

----------------------------------------------------------------------------
(* Part 3: Connection Manager -- Forward Open (0x54), Large Forward Open (0x5B), Forward Close (0x4E).          *)
(* A connection side is [id |-> 4 octets, rpi |-> 4 octets, size, variable, priority, type, redundant];          *)
(* the Network Connection Parameters are 16 bits (size in 9 bits) or, for the large form, 32 bits (size in the   *)
(* low word, the same flag bits in the high word).  The large form is used when either size exceeds 511.        *)
NCPFlags(c) == c.variable * 512 + c.priority * 1024 + c.type * 8192 + c.redundant * 32768
EncNCP(c, large) == IF large THEN U16(c.size) \o U16(NCPFlags(c)) ELSE U16(NCPFlags(c) + c.size)
IsLargeFO(ot, to) == ot.size > 511 \/ to.size > 511
\* fo: [prio, ticks, ot, to, serial, vendor, oserial (4 octets), mult, trigger, cpath (segments)]
EncForwardOpen(fo) ==
  LET lg == IsLargeFO(fo.ot, fo.to) IN
  <<(IF lg THEN 91 ELSE 84)>> \o EncEPATH(CMPath) \o <<fo.prio, fo.ticks>> \o fo.ot.id \o fo.to.id
  \o U16(fo.serial) \o U16(fo.vendor) \o fo.oserial \o <<fo.mult, 0, 0, 0>>
  \o fo.ot.rpi \o EncNCP(fo.ot, lg) \o fo.to.rpi \o EncNCP(fo.to, lg) \o <<fo.trigger>> \o EncEPATH(fo.cpath)
\* success reply: ids, serials, actual packet intervals, application reply size (words) + reserved
EncForwardOpenReply(fo, otapi, toapi) ==
  <<(IF IsLargeFO(fo.ot, fo.to) THEN 219 ELSE 212), 0, 0, 0>> \o fo.ot.id \o fo.to.id
  \o U16(fo.serial) \o U16(fo.vendor) \o fo.oserial \o otapi \o toapi \o <<0, 0>>
\* replies carrying application reply data (USINT octets): size in 16-bit words, a reserved octet, the data padded to a whole word
AppReply(app) == <<(Len(app) + 1) \div 2, 0>> \o app \o (IF Len(app) % 2 = 1 THEN <<0>> ELSE <<>>)
EncForwardOpenReplyApp(fo, otapi, toapi, app) ==
  <<(IF IsLargeFO(fo.ot, fo.to) THEN 219 ELSE 212), 0, 0, 0>> \o fo.ot.id \o fo.to.id
  \o U16(fo.serial) \o U16(fo.vendor) \o fo.oserial \o otapi \o toapi \o AppReply(app)
EncForwardCloseReplyApp(fo, app) == <<206, 0, 0, 0>> \o U16(fo.serial) \o U16(fo.vendor) \o fo.oserial \o AppReply(app)
\* failure reply: status (+ extended words), serials, optionally the remaining path size
EncForwardOpenFail(fo, st, ext) ==
  <<(IF IsLargeFO(fo.ot, fo.to) THEN 219 ELSE 212), 0>> \o EncStatus(st, ext) \o U16(fo.serial) \o U16(fo.vendor) \o fo.oserial
EncForwardClose(fo) ==
  <<78>> \o EncEPATH(CMPath) \o <<fo.prio, fo.ticks>> \o U16(fo.serial) \o U16(fo.vendor) \o fo.oserial \o EncEPATHpad(fo.cpath)
EncForwardCloseReply(fo) == <<206, 0, 0, 0>> \o U16(fo.serial) \o U16(fo.vendor) \o fo.oserial \o <<0, 0>>
=============================================================================
