----------------------------- MODULE MC_Interop -----------------------------
(* C14: operation lists for an independent client implementation (pylogix), over tags of the types both sides support,   *)
(* including an array larger than one reply, out-of-range and unknown tags; and raw request frames encoded by the spec.  *)
EXTENDS Client, ServerOps, Json
ICfg == [ budget |-> 100000,     \* the application-level view: a read returns the whole range (the client library fragments internally)
          tags |-> << [name |-> <<65>>,     type |-> "INT",  len |-> 3,   scalar |-> FALSE, cia |-> <<2, 1, 1>>],
                      [name |-> <<66, 98>>, type |-> "DINT", len |-> 1,   scalar |-> TRUE,  cia |-> <<2, 1, 2>>],
                      [name |-> <<84>>,     type |-> "INT",  len |-> 600, scalar |-> FALSE, cia |-> <<2, 1, 3>>],
                      [name |-> <<85>>,     type |-> "REAL", len |-> 2,   scalar |-> FALSE, cia |-> <<2, 1, 4>>],
                      [name |-> <<67>>,     type |-> "SINT", len |-> 4,   scalar |-> FALSE, cia |-> <<2, 1, 5>>],
                      [name |-> <<68>>,     type |-> "LINT", len |-> 2,   scalar |-> FALSE, cia |-> <<2, 1, 6>>],
                      [name |-> <<87>>,     type |-> "UINT", len |-> 2,   scalar |-> FALSE, cia |-> <<2, 1, 7>>],
                      [name |-> <<88>>,     type |-> "UDINT", len |-> 1,  scalar |-> FALSE, cia |-> <<2, 1, 8>>],
                      [name |-> <<75, 57>>,  type |-> "INT",  len |-> 1,  scalar |-> TRUE,  cia |-> <<2, 1, 9>>],
                      [name |-> <<75, 49, 48>>, type |-> "DINT", len |-> 2, scalar |-> FALSE, cia |-> <<2, 1, 10>>],
                      [name |-> <<75, 49, 49>>, type |-> "INT",  len |-> 2, scalar |-> FALSE, cia |-> <<2, 1, 11>>],
                      [name |-> <<75, 49, 50>>, type |-> "SINT", len |-> 1, scalar |-> TRUE,  cia |-> <<2, 1, 12>>],
                      [name |-> <<83>>,     type |-> "SSTRING", len |-> 2, scalar |-> FALSE, cia |-> <<2, 1, 13>>] >> ]
Rq(svc, tag, idx, n, typ, vals) == [svc |-> svc, tag |-> tag, mode |-> "sym", idx |-> idx, n |-> n, off |-> 0, typ |-> typ,
                                    vals |-> vals, bytes |-> <<>>, ms |-> <<>>]
Basis == { Rq("read", 1, 0, 3, "INT", <<>>), Rq("read", 1, 1, 1, "INT", <<>>), Rq("write", 1, 1, 2, "INT", << <<5, 0>>, <<255, 127>> >>), Rq("write", 1, 0, 1, "INT", << <<0, 128>> >>),
                Rq("read", 2, 0 - 1, 1, "DINT", <<>>), Rq("write", 2, 0 - 1, 1, "DINT", << <<112, 17, 1, 0>> >>),
                Rq("read", 3, 0, 600, "INT", <<>>), Rq("write", 3, 598, 2, "INT", << <<7, 0>>, <<8, 0>> >>), Rq("read", 3, 300, 300, "INT", <<>>),
                Rq("read", 4, 0, 2, "REAL", <<>>), Rq("write", 4, 0, 2, "REAL", << <<0, 0, 192, 63>>, <<0, 0, 16, 192>> >>),
                Rq("read", 5, 0, 4, "SINT", <<>>), Rq("write", 5, 1, 2, "SINT", << <<128>>, <<127>> >>),
                Rq("read", 6, 0, 2, "LINT", <<>>), Rq("write", 6, 0, 1, "LINT", << <<1, 0, 0, 0, 0, 0, 0, 128>> >>),
                Rq("read", 3, 0, 244, "INT", <<>>), Rq("read", 3, 100, 488, "INT", <<>>),      \* exactly one / two full replies of 488 octets
                Rq("write", 7, 0, 2, "UINT", << <<64, 156>>, <<255, 255>> >>), Rq("read", 7, 0, 2, "UINT", <<>>),
                Rq("write", 8, 0, 1, "UDINT", << <<0, 94, 208, 178>> >>), Rq("read", 8, 0, 1, "UDINT", <<>>),
                Rq("write", 11, 0, 2, "INT", << <<11, 0>>, <<12, 0>> >>), Rq("read", 10, 0, 2, "DINT", <<>>), Rq("read", 11, 0, 2, "INT", <<>>),
                Rq("write", 12, 0 - 1, 1, "SINT", << <<9>> >>), Rq("read", 9, 0 - 1, 1, "INT", <<>>),
                Rq("read", 12, 0 - 1, 1, "SINT", <<>>), Rq("read", 5, 2, 1, "SINT", <<>>),           \* one-octet values: odd-sized replies inside a multi-read    \* more than ten auto-allocated tags
                \* short strings of ISO-8859-1 characters, one with a high octet
                Rq("write", 13, 0, 1, "SSTRING", << <<99, 97, 102, 233>> >>), Rq("read", 13, 0, 2, "SSTRING", <<>>), Rq("write", 13, 1, 1, "SSTRING", << <<97>> >>),
                Rq("read", 1, 2, 3, "INT", <<>>),                          \* beyond the end
                Rq("read", 1, 5, 1, "INT", <<>>),                          \* index beyond the end
                Rq("read", 0, 0 - 1, 1, "INT", <<>>) }                     \* unknown tag
Lists == UNION { [1 .. k -> Basis] : k \in 1 .. 2 }
ASSUME PrintT(ToJson([k |-> "cfg", cfg |-> ICfg, mem0 |-> ZeroMemOf(ICfg)]))
\* what the List Identity / List Services requests of a client must show: the simulator's identity and its one service
ASSUME PrintT(ToJson([k |-> "lists", identity |-> SimIdentity, services |-> SimServices]))
ASSUME \A r \in Basis : PrintT(ToJson([k |-> "op", r |-> r]))
\* raw frames (reference encoder): Register, reads / writes in Unconnected Send and bare, a bundle, Unregister
Frame(kind, i, wrap, r) == [kind |-> kind, sess |-> <<i, 0, 0, 0>>, ctx |-> <<i, 2, 3, 4, 5, 6, 7, 8>>, wrap |-> wrap,
                            route |-> << [k |-> "port", p |-> 1, l |-> 0] >>, tmo |-> 5, req |-> r]
RawReqs == { r \in Basis : r.n <= 4 }
ASSUME \A r \in RawReqs : \A w \in {"simple", "ucsend"} :
          PrintT(ToJson([k |-> "raw", f |-> Frame("rr", 7, w, r), fb |-> FrameBytes(ICfg, Frame("rr", 7, w, r))]))
ASSUME PrintT(ToJson([k |-> "rawreg", f |-> Frame("register", 0, "simple", Rq("read", 1, 0, 1, "INT", <<>>)),
                      fb |-> FrameBytes(ICfg, Frame("register", 0, "simple", Rq("read", 1, 0, 1, "INT", <<>>)))]))
\* connected messaging by the reference encoder: (Large) Forward Open, SendUnitData with sequence counts, Forward Close
ISide(id, size, type) == [id |-> id, rpi |-> (IF type = 2 /\ id # <<1, 0, 254, 128>> THEN <<64, 66, 15, 0>> ELSE <<144, 208, 3, 0>>), size |-> size,
                          variable |-> 1, priority |-> 0, type |-> type, redundant |-> 0]      \* (the two directions ask for different packet intervals)
IFO(otid, ottype, size, serial) ==
  [prio |-> 10, ticks |-> 5, ot |-> ISide(otid, size, ottype), to |-> ISide(<<1, 0, 254, 128>>, size, 2), serial |-> serial, vendor |-> 4919,
   oserial |-> <<42, 0, 0, 0>>, mult |-> 3, trigger |-> 163, cpath |-> << [k |-> "port", p |-> 1, l |-> 0], [k |-> "class", v |-> 2], [k |-> "inst", v |-> 1] >>]
ConnFrame(kind, fo) == [Frame(kind, 7, "simple", Rq("read", 1, 0, 1, "INT", <<>>)) EXCEPT !.route = <<>>] @@ [fo |-> fo]
UnitFrame(cid, seq, r) == [Frame("unit", 7, "simple", r) EXCEPT !.route = <<>>, !.tmo = 0, !.ctx = <<seq % 256, 9, 9, 9, 9, 9, 9, 9>>] @@ [cid |-> cid, seq |-> seq]
ICid1 == <<1, 2, 3, 4>>   ICid2 == <<5, 6, 7, 8>>
ASSUME \A x \in { <<ICid1, 2, 500, 11>>, <<ICid2, 1, 4002, 12>> } : \A kind \in {"fwdopen", "fwdclose"} :
          LET f == ConnFrame(kind, IFO(x[1], x[2], x[3], x[4])) IN PrintT(ToJson([k |-> "rawconn", f |-> f, fb |-> FrameBytes(ICfg, f)]))
ASSUME \A r \in RawReqs : \A c \in {ICid1, ICid2} : \A sq \in {1, 2, 65535} :
          LET f == UnitFrame(c, sq, r) IN PrintT(ToJson([k |-> "rawunit", f |-> f, fb |-> FrameBytes(ICfg, f)]))
VARIABLE lst
LInit == lst \in Lists
LNext == FALSE /\ UNCHANGED lst
LEmit == PrintT(ToJson([k |-> "list", ops |-> lst]))
=============================================================================
