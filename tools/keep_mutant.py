#!/venv/bin/python
"""tools/keep_mutant.py <srcdir> <name> <caught_by|none> <note>: copy a confirmed seeded change into /verif/seeded/<name>/"""
import json, os, shutil, sys
src, name, caught, note = sys.argv[1:5]
dst = os.path.join("/verif/seeded", name)
os.makedirs(dst, exist_ok=True)
for f in ("patch.diff", "demo.py"):
    shutil.copy(os.path.join(src, f), os.path.join(dst, f))
meta = json.load(open(os.path.join(src, "meta.json")))
meta["confirmed"] = ("applied to a scratch worktree of /repo HEAD with tools/try_mutant.sh: demo.py exits 0 without and non-zero with "
                     "the change; relevant repository tests run by the authoring sub-agent (see tests_run)")
meta["caught_by"] = caught
meta["note"] = note
json.dump(meta, open(os.path.join(dst, "meta.json"), "w"), indent=1)
print("kept", dst)
