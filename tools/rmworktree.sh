#!/bin/sh
git -C /repo worktree remove --force /tmp/mut/$1/cpppo 2>/dev/null
rm -rf /tmp/mut/$1
git -C /repo worktree prune
