#!/bin/sh
# tools/mkworktree.sh <name>: scratch worktree of /repo HEAD at /tmp/mut/<name>/cpppo (importable as `cpppo`
# with PYTHONPATH=/tmp/mut/<name>).  Remove with: tools/rmworktree.sh <name>
set -e
mkdir -p /tmp/mut/$1/out
git -C /repo worktree add -q --detach /tmp/mut/$1/cpppo HEAD
echo /tmp/mut/$1/cpppo
