#!/venv/bin/python
"""tools/seeded_table.py: rewrite the seeded-changes table of DESIGN.md (section 8) from seeded/*/meta.json"""
import json, os, re
root = "/verif"
names = sorted(os.listdir(os.path.join(root, "seeded")), key=lambda n: (n.split("-")[0], int(n.split("-")[1])))
rows = []
for n in names:
    m = json.load(open(os.path.join(root, "seeded", n, "meta.json")))
    rows.append("| %s | %s | %s |" % (n, m["summary"].replace("|", "/").replace("\n", " ")[:150], m["caught_by"].replace("|", "/")))
d = open(os.path.join(root, "DESIGN.md")).read()
head = "| seeded | change | caught by |\n|--------|--------|-----------|\n"
i = d.index(head) + len(head)
j = i
while d[j:j + 2] == "| ":
    j = d.index("\n", j) + 1
d = d[:i] + "\n".join(rows) + "\n" + d[j:]
d = re.sub(r"\d+ confirmed changes are kept under `seeded/`", "%d confirmed changes are kept under `seeded/`" % len(names), d)
open(os.path.join(root, "DESIGN.md"), "w").write(d)
print(len(names), "rows")
