#!/venv/bin/python
"""Regenerate MANIFEST.json from the table below (single place to edit)."""
import json
import os

ROOT = os.path.dirname(os.path.dirname(os.path.abspath(__file__)))
ALL = ["C%02d" % i for i in range(1, 21)]

BASELINE = ("cd /repo && /venv/bin/python -m pytest -ra -q -p no:cacheprovider --timeout=900 "
            "--continue-on-collection-errors")

# pid -> (category, text, design_ref, level_note, technique)
CLAIMED = {
 "C19": ("model_checking",
         "TLC checks the sorted sweep (TLA+ state machine) against the post-condition written from the statement for "
         "every multiset of <=3 ranges over addresses on both sides of a bank boundary x reach x limit; every one of "
         "those inputs (plus seeded random larger sets) is run through the real merge()/shatter() and TLC evaluates "
         "the same post-condition on each recorded (input, output) pair.",
         "5/C19",
         "domain: counts >= 1; bank = address div 10000; Python's sort is trusted",
         "TLA+ spec (Ranges) + TLC exhaustive; spec-emitted inputs replayed into merge/shatter; outputs validated by TLC (RangesTrace)"),
}

NA_REASON = "check not yet built in this revision (planned in DESIGN.md section 5); nothing is claimed for it yet"


def main():
    checks = []
    for pid in ALL:
        if pid not in CLAIMED:
            continue
        cat, text, ref, note, tech = CLAIMED[pid]
        checks.append({
            "property_id": pid,
            "quick_cmd": "./check %s quick" % pid,
            "thorough_cmd": "./check %s thorough" % pid,
            "evidence_file": "/verif/evidence/%s.json" % pid,
            "replay_cmd_template": "./check %s quick --replay {path}" % pid,
            "engine": "tlc",
            "level_claimed": {"category": cat, "text": text, "design_ref": ref},
            "level_note": note,
            "technique": tech,
        })
    man = {
        "version": 1,
        "setup_cmd": "./setup.sh",
        "hooks": {"guard": "CPPPO_VERIF", "enable": "no source hooks: the harness wraps cpppo objects from outside "
                  "(CPPPO_VERIF=1 is set inside check processes only)",
                  "baseline_off_cmd": BASELINE, "source_commits": [], "add_only": True},
        "engines": [{"name": "tlc", "path": "/verif/verif/tlc.py", "serves_properties": sorted(CLAIMED),
                     "kind_free_text": "TLA+ specification in /verif/spec checked by TLC; bound to the code by replay "
                     "of TLC-emitted cases and TLC validation of recorded traces"}],
        "checks": checks,
        "not_applicable": [{"property_id": p, "reason": NA_REASON} for p in ALL if p not in CLAIMED],
        "notes": "See DESIGN.md.  known_findings.json lists fixed/known genuine defects.",
    }
    with open(os.path.join(ROOT, "MANIFEST.json"), "w") as f:
        json.dump(man, f, indent=1)
    print("MANIFEST.json: %d checks, %d not_applicable" % (len(checks), len(man["not_applicable"])))


if __name__ == "__main__":
    main()
