#!/venv/bin/python
"""Regenerate MANIFEST.json from the table below (single place to edit)."""
import json
import os

ROOT = os.path.dirname(os.path.dirname(os.path.abspath(__file__)))
ALL = ["C%02d" % i for i in range(1, 21)]

BASELINE = ("cd /repo && /venv/bin/python -m pytest -ra -q -p no:cacheprovider --timeout=900 "
            "--continue-on-collection-errors")

# pid -> (category, text, design_ref, level_note, technique)
CLAIMED = {
 "C14": ("model_checking",
         "pylogix (no shared code with cpppo) drives a live simulator thread through register, (Large) Forward Open, connected reads / writes "
         "of INT / DINT / SINT / REAL / LINT / UINT / UDINT scalars and arrays, arrays of exactly one and two full replies and of 600 "
         "elements (its own fragment loop), multi-tag reads, out-of-range and unknown tags, twelve auto-allocated tags, Close; the "
         "TLC-emitted operation lists' observed (value, status) sequences are validated by TLC (ClientTrace) against the tag "
         "model; spec-encoded raw frames (Register, bare and Unconnected-Send-wrapped reads / writes) are written to the TCP "
         "socket and the replies validated by TLC (ServerTrace) with the spec's decoder.  Short strings with high octets (SSTRING) through pylogix; "
         "the cpppo client's List Identity / Services / Interfaces requests against the live simulator, judged by ServerOps!SimIdentity / SimServices.",
         "5/C14", "conformance-dominated: the spec is the reference encoder / decoder and the array model; pylogix status strings mapped by a fixed table; "
         "raw connected (Forward Open / SendUnitData) frames are exercised through pylogix only",
         "independent client (pylogix) sessions and spec-encoded raw frames against the live simulator, validated by TLC trace specs"),
 "C12": ("model_checking",
         "spec/Client.tla: the application-level contract (one result per operation, in order, equal to issuing the operations one "
         "after the other on the tag model, plain and fragment mode) and the text of an operation (OpText); TLC emits every "
         "operation list of <= 2 (3) operations over a 15-operation basis with texts; the real connector runs each list against a "
         "live simulator thread under depth {0,1,2,5} x multiple {0,100,4000} x fragment x route patterns; TLC (ClientTrace) "
         "accepts a run iff results are one per operation and explained by the tag model and no bundle mixed route paths; "
         "parse_operations / attribute_operations / format_path are checked against OpText.  Operations include explicit byte-offset "
         "fragments, Get/Set Attribute Single, bundles whose replies exceed one receive buffer, and writes spelled without a cast (the parsing "
         "entry point's default integer type: PlainText) and other spellings of a numeric address (AltTexts).",
         "5/C12", "operations refused with a CIP status = range / type errors on existing tags; string writes not in fragment mode",
         "TLA+ client contract + TLC-emitted operation lists; real connector vs live simulator over the settings matrix, validated by TLC trace spec"),
 "C13": ("fault_enumeration",
         "Client!UnderFault: results are a correct prefix, never beyond the completely delivered replies, a shortfall is an error; the real "
         "connector runs through a relay that cuts the server-to-client stream after k octets (all / boundary + header + every 3rd), "
         "cuts the client-to-server stream, drops one whole reply frame, or swallows all replies, in synchronous, pipelined, "
         "fragmented and bundled modes; TLC (ClientTrace) judges every run; poll.loop through get_attribute.proxy under cuts and "
         "stalled-then-late replies must fail, discard the connection, reconnect and return the values of its own requests.  spec/PollRun.tla is the polling driver (poll.run / poll.loop: back-off between its bounds, reset and cadence after a success); TLC checks its laws on every pattern of 1..7 poll outcomes and each pattern is replayed on the real driver over a virtual clock.",
         "5/C13", "a result counts as completely received when its reply frame was delivered in full; 0.6 s timeouts; relay closes both directions at a cut",
         "TLA+ fault contract; fault-injecting relay enumerating cut offsets / lost frames / stalls on the real client; runs validated by TLC trace spec"),
 "C09": ("model_checking",
         "spec/Concurrency.tla: sessions whose (member) requests each take effect in one atomic step on the shared tag model; TLC explores "
         "every interleaving of seven scenarios -- tag services, bundles, Get Attribute Single / List, connected messaging by two sessions choosing "
         "the same connection serial over a shared connection table -- (TagsWellFormed, PrivateKept, NoTornRead, OwnConnections, termination); on the real code one thread per "
         "session runs the per-frame pipeline while shared parser locks and every tag-storage access are scheduling points and a "
         "controller forces TLC-emitted schedules (deterministic, reproducible); each execution's history is checked by TLC "
         "(ConcurrencyTrace) for linearizability against the tag model and the connection table, plus reply routing, deadlock and exception freedom.  "
         "Concurrent ROUTED sessions ([UCMM] Route to a second simulator process over one shared route connection): free-running on real sockets over a slow link, and "
         "forced schedules whose scheduling points include taking / releasing / sending on the shared route connection; histories judged by TLC (RouteTrace).  "
         "spec/RouteConn.tla models that connection (acquire / send / answer / release / establish; TLC: OwnReply, WireOwned, AllServed; the send-before-acquire deviation must violate OwnReply) "
         "and every forced schedule's acq/send/rcv/rel event log is replayed against it by TLC (RouteConnTrace).",
         "5/C09", "forced schedules preempt at the instrumented points (parser locks, the middle of every shared-parser run, tag storage accesses, the tag loop of logix.setup); free-running threads (switch interval 1 us, warm and cold start) sample everything else",
         "TLA+ atomic-effect model + TLC interleavings; TLC-emitted schedules forced on real threads; histories checked for linearizability by TLC"),
 "C08": ("fault_enumeration",
         "spec/Hostile.tla lays valid frames (write, read, bundle, register, forward open, set attribute single) out as named parts -- every length, count, offset, "
         "size and type field of every nesting level -- and enumerates part x operator mutation plans (zero, +-1, max, drop, dup, "
         "bit flip, truncate after/inside, insert) on the frame and on the re-framed inner message, at three session points; plus seeded random octets, splices and bit flips; each "
         "runs against the real server (virtual socket) under a watchdog; TLC (HostileTrace) checks the contract: finished in "
         "time, well-framed replies only, closed at the end, tag shapes intact, a tag changed only by an acknowledged / intact "
         "write, a following session served correctly.  The datagram service (spec/Udp.tla, model-checked; UdpTrace) gets the same octets as "
         "datagrams between well-formed ones from several peers: every well-formed datagram is answered as if alone.  'Member' plans mutate one member of a "
         "consistently re-framed bundle; where the specification knows the input holds no write request at all nothing may change.  "
         "Request routing: a second simulator process behind a delaying relay is the target of the first one's port/link route; a hostile session's "
         "routed request with a 10 ms timeout precedes other sessions' routed and local requests, each of which must get its own answer (RouteTrace).",
         "5/C08", "virtual TCP socket and scripted UDP recvfrom (no kernel sockets) except the routing scenarios (loopback TCP, wall-clock delays); byte-level fuzz is sampling; a failing bundle may have executed well-formed member writes",
         "TLC-enumerated structure-aware mutation plans + seeded fuzz replayed on the real server; contract decided by TLC trace spec"),
 "C17": ("exploration",
         "spec/Times.tla (integer microseconds): TLC checks the order law on a window of instants around a second boundary, the zone "
         "law for forward/backward transitions, Parse(Format(d)) = d over boundary durations, and emits vectors: the real timestamp "
         "class must render/compare as computed (also after arithmetic on an already rendered value), the real duration class "
         "round-trips and parses the spec's text; real zones: probes around every recent DST transition (own TZif reader) are "
         "rendered with the generic zone name and parsed back, TLC (TimesTrace) decides same-instant vs must-reject.  spec/TsObject.tla is the "
         "timestamp object with its memoised rendering under str / += / -=; TLC checks Coherent on every history of <= 3 (4) operations and "
         "every history is replayed on a real timestamp object.",
         "5/C17", "sampling of binary floating point (ties and values within 2 us of a comparison boundary excluded); tz database and strftime trusted; "
         "no DST-specific abbreviations on this image",
         "TLA+ laws checked by TLC on an integer model; TLC-emitted vectors replayed; zone probes of the real code validated by TLC"),
 "C18": ("model_checking",
         "spec/History.tla states the delivery rule (start file, replayable records, due = timestamp <= replay clock + look-ahead, a "
         "load returns the next undelivered due records up to its limit); MC_History explores every bounded scenario under every "
         "schedule of ticks and load(limit) calls (ExactlyOnceInOrder, NotEarly, NotLate, <>all delivered); every emitted scenario is "
         "written with the real logger (rotated, gz, bz2, duplicates, comment/corrupt lines) and replayed by the real loader under a "
         "virtual clock; TLC (HistoryTrace) accepts a run iff every load returned exactly what the rule says, completion is "
         "reported only after everything was delivered and the final register map is the last logged one.  Every run is also validated "
         "against spec/Loader.tla, the loader as coded (LoaderTrace): a property-rejected run is the known finding F4 only if it is exactly "
         "that algorithm's behaviour on a single-timestamp file.",
         "5/C18", "integer-second timestamps; known finding F4 identified exactly through the as-coded model Loader.tla",
         "TLA+ delivery rule + TLC exhaustive schedules; real logger/loader runs under a virtual clock validated by TLC trace spec"),
 "C10": ("model_checking",
         "spec/Automata.tla: big-step semantics of the framework (accept/process, limit resolution, delegate with repeat cycles, "
         "greedy/terminal stopping, final sent <= ending check); MC_Automata evaluates 7 synthetic machine templates under every "
         "limit and repeat count on every input of length <= 4 and checks `terminal completion => consumed <= limit'; each instance "
         "is rebuilt from cpppo classes and must agree (limit, sent accounting against a counting iterator, exact repeat "
         "count, success/failure and consumed count); every library parser wrapped in dfa(limit=L) for all L in 0..len+2 "
         "over spec vectors (CPF item lists included) + sentinels is checked by TLC (AutomataTrace) for LimitRespected, SentAccounting and InnerLimits "
         "(a message delimited by its own length fields never takes the octets that follow it).",
         "5/C10", "whole input available (end of input); a failing run may take one symbol beyond a limit before its final check fails",
         "TLA+ semantics of the automata framework evaluated by TLC; synthetic machines rebuilt from cpppo classes replayed; library-machine runs validated by TLC"),
 "C11": ("model_checking",
         "spec/Regex.tla: Brzozowski derivatives and an independent direct-membership semantics, checked by TLC to agree on every "
         "expression of the bounded domain; TLC computes for every (expression, string) the longest viable prefix and acceptance; "
         "cpppo.regex and regex_bytes machines built from the emitted text are fed every string whole / symbol-at-a-time / at "
         "sampled splits and must consume, store and accept exactly that (NonTerminal otherwise).  spec/RegexBytes.tla models the "
         "translation into octet machines as coded; TLC emits its outcome too: a run the property rejects is a known finding only if it is "
         "precisely that outcome, and construction refusals must be the predicted ones.",
         "5/C11", "expressions of size <= 3 over an 8-symbol alphabet with 2- and "
         "3-octet symbols, three of them sharing lead octets with named ones; strings of length <= 2 all, length 3 every fourth per expression in the quick tier (all, and length 4, in thorough); two known findings on byte machines (F10, F11: both exact)",
         "TLA+ derivative oracle evaluated by TLC over all small expressions x strings; machines built by cpppo replayed against it"),
 "C20": ("model_checking",
         "spec/Tnet.tla defines Dump and Parse over a value ADT (arbitrary-precision integers, floats as text, bytes, text as code points written in UTF-8 or Latin-1, "
         "booleans, null, lists, dictionaries); TLC checks Parse(Dump(v)) = (v, <<>>) and the same in front of every tail for every "
         "value of the bounded domain; each (value, octets) vector is replayed into tnetstrings.dump / parse (exact types, "
         "remainder) and, for the types the streaming tnet_machine supports, fed whole / bytewise / at every two-way split with "
         "every tail: same payload, exactly Len(Dump(v)) symbols consumed; the socket-level reader tnet_from gets two-message streams "
         "(with / without an ignored separator) whole, bytewise and at every two-way split; spec/TnetReader.tla is that reader as a state machine "
         "(chunks, receive timeouts): TLC checks ChunkingIndependent on every schedule of <= 3 chunks and <= 1 (2) timeouts and each schedule is "
         "replayed on the real reader, yields compared one by one.",
         "5/C20", "floats carried as repr text; dictionary order = insertion order",
         "TLA+ spec (Tnet) + TLC exhaustive over the value domain; vectors replayed into dump/parse and the streaming machine over all splits"),
 "C01": ("model_checking",
         "spec/CIPWire.tla is an encoder written from the CIP layout tables as TLA+ operators; TLC evaluates it over a bounded domain of "
         "every sub-grammar (EPATH segment kinds and widths, status, typed data of 13 types, Logix/attribute requests -- Get/Set Attribute Single, Get Attribute List, Get Attributes All -- and all "
         "replies the tag model allows, bundles, Unconnected Send, frames of each command) and checks the layout laws (even EPATH, "
         "size = words, unique decoding, bundle offset law); every vector is replayed into cpppo: produce(fields) = spec octets, "
         "parse(octets) consumes all and recovers every field, produce(parse(octets)) = octets (one frame has the top bit of its length field set; socket addresses also given as numbers).",
         "5/C01", "floats as bit patterns; STRUCT typed data as opaque octets",
         "TLA+ reference encoder (CIPWire) evaluated by TLC over boundary domains; vectors replayed into cpppo producers and parsers"),
 "C02": ("model_checking",
         "spec/Server.tla models one connection (Recv/Poll/Eof/Proc/Send/Close); TLC explores every delivery schedule of 1..2-frame "
         "streams (ProcOnlyComplete, OneReplyEach, PartialNoEffect, ClosedStays); TLC-emitted streams (spec-encoded frames) are "
         "delivered to the real enip_srv_tcp over a virtual socket whole, bytewise, per frame, at every two-way split, at every "
         "truncation offset + EOF and in random k-way splits with timeouts; each session's event log is validated by TLC "
         "(ServerTrace) including final tag memory and a follow-up connection.  Below that seam the same server runs over a real loopback TCP "
         "connection (the real network.recv) with streams adding up to the receive buffer size and its neighbours: every reply while the connection is open.",
         "5/C02", "virtual socket (scripted network.recv) around the real receive loop for the schedules; the real socket part is a handful of sessions with a 3 s wait",
         "TLA+ connection model + TLC exhaustive schedules; real sessions over all splits/truncations validated by TLC trace spec"),
 "C06": ("model_checking",
         "Server.tla reply discipline: TLC explores all interleavings of Recv/Proc/Send for pipelined streams; sessions of 1..4 frames "
         "of every service kind (successful, failing, bundles, unroutable, Unregister, distinct contexts/handles), delivered "
         "pipelined / per frame / randomly to the real server; TLC accepts only exactly one reply per complete request, in order, "
         "with echoed command/context/handle, the spec-computed SendRRData framing and CIP reply, error frame for unroutable "
         "requests, non-zero Register handle, no reply and end of session for Unregister.  Connected sessions (Forward Open small / large, "
         "SendUnitData with sequence counts, Forward Close, re-open, session-ending frames, truncations): replies re-derived by the spec and "
         "the real Forward Open table compared with the model's after every reply and after the session.  The request size limit option (ServerOps!Oversize): "
         "streams on servers whose limit is at / one below a frame's payload length.",
         "5/C06", "List* reply payloads are those of the default Identity object (ServerOps!ListPayload); random session handle only required non-zero; connection-table clean-up modelled as coded (DEVIATION notes in Server.tla)",
         "TLA+ connection model + TLC; pipelined sessions on the real server validated by TLC trace spec (replies re-derived by the spec)"),
 "C15": ("model_checking",
         "Server!RouteAccepted is the statement's decision table; the full matrix 6 personalities x 9 request route-path shapes x 4 "
         "services runs on the real server configured as main() does; TLC validates: accepted => normal reply with model values, "
         "refused => error status frame, session ends, memory unchanged, zero attribute accesses; spec-emitted route-path texts "
         "must parse to the segments they spell.",
         "5/C15", "configured multi-segment paths set through a UCMM subclass (main() itself only admits one segment)",
         "TLA+ decision table + TLC; full configuration x request matrix on the real server validated by TLC trace spec"),
 "C03": ("model_checking",
         "TLC explores spec/Logix.tla (tags as typed arrays of octet-valued elements; every tag/attribute service as the set of "
         "outcomes the statements allow) over every catalogue request to depth 2-3 on several type-pair configurations and "
         "checks TypeOK, FrameOK, ReadsMemory, RefusedNoChange, Readable; every (reachable memory, request) pair and random "
         "histories are executed on the real simulator with requests encoded by the spec; TLC (LogixTrace) accepts each reply "
         "and resulting tag contents only if they are an allowed outcome.",
         "5/C03", "CM-level execution (Connection_Manager.request on CIP octets); bounded value domains; PERMISSIVE points listed in LogixOps.tla",
         "TLA+ spec (LogixOps/Logix) + TLC exhaustive; per-transition replay of TLC-emitted cases and random histories validated by TLC trace spec"),
 "C04": ("model_checking",
         "spec/MC_Frag.tla: a client walks Read Tag Fragmented / tiles Write Tag Fragmented against LogixOps; TLC explores every tag "
         "length, start, count, reply budget 1..2*size+3, fragment-size choice and tile order per element type and checks "
         "NeverFails, FragmentSize, Reassembly, Tiled, Progress (liveness under weak fairness); every emitted transfer is walked on "
         "the real simulator and validated per fragment and as a whole by TLC.  Unbounded: spec/FragInd.tla proves the tiling arithmetic "
         "for any length / element size / budget as an inductive invariant with Apalache.",
         "5/C04", "fixed-size element types only (as the property states); CM-level execution; budget = Logix.MAX_BYTES",
         "TLA+ transfer model + TLC exhaustive incl. liveness; every emitted transfer replayed on the real simulator, validated by TLC (LogixTrace xfer verdict)"),
 "C05": ("model_checking",
         "Same spec and machinery as C03 over the whole request catalogue: out-of-bounds indices/counts/offsets, zero counts, every "
         "request type against every tag type, values beyond the tag type's range, unknown tags; the spec fixes 0xFF/0x2105, "
         "0xFF/0x2107 where the statement does, requires unchanged memory on every refusal and representable stored values after "
         "every accepted write (memory projection after each step).",
         "5/C05", "CM-level execution; unknown tag: any failure indication accepted (encapsulation error or CIP status)",
         "TLA+ spec (LogixOps/Logix) + TLC exhaustive; per-transition replay and histories validated by TLC trace spec"),
 "C07": ("model_checking",
         "A bundle is defined in the spec as the left fold of its members (AfterMulti/Chain) and the offset-table law is checked "
         "by TLC on every emitted bundle; every bundle of 1..2/3 members over a basis of valid and failing requests is run on "
         "the real simulator and, member by member, on an identically initialised one; TLC locates member replies through the "
         "reply's own offset table and decides three-way (spec outcome, equal to single reply, equal final memory).",
         "5/C07", "unknown-tag members: reply not compared with the stand-alone form (which aborts with an encapsulation error)",
         "TLA+ fold definition + TLC-emitted bundles replayed; bundle vs singles vs spec decided by TLC (LogixTrace)"),
 "C16": ("model_checking",
         "spec/DotDict.tla models the tree by its flat view (leaf paths), textual keys with empty tokens ('..', leading dot), "
         "list elements; TLC explores all histories to depth 2-3 (WellFormed, IterationMatchesLookup, InteriorLookup, ReadOnly, "
         "DelOnlyLeaves); every (state, operation) and random histories run on real dotdicts in item/attribute/index/get forms, "
         "and TLC (DotDictTrace) accepts result, returned value and resulting tree; copy/deepcopy independence.",
         "5/C16", "leaf values are small integers, 0 and None; keys may end in '..'; PERMISSIVE points listed in evidence assumptions; known finding F7 modelled exactly",
         "TLA+ spec (DotDict) + TLC exhaustive; per-transition replay + histories validated by TLC trace spec"),
 "C19": ("model_checking",
         "TLC checks the sorted sweep (TLA+ state machine) against the post-condition written from the statement for "
         "every multiset of <=3 ranges over addresses on both sides of a bank boundary x reach x limit; every one of "
         "those inputs (plus seeded random larger sets) is run through the real merge()/shatter() and TLC evaluates "
         "the same post-condition on each recorded (input, output) pair.",
         "5/C19",
         "domain: counts >= 1; bank = address div 10000; Python's sort is trusted",
         "TLA+ spec (Ranges) + TLC exhaustive; spec-emitted inputs replayed into merge/shatter; outputs validated by TLC (RangesTrace)"),
}

NA_REASON = "check not yet built in this revision (planned in DESIGN.md section 5); nothing is claimed for it yet"


def main():
    checks = []
    for pid in ALL:
        if pid not in CLAIMED:
            continue
        cat, text, ref, note, tech = CLAIMED[pid]
        checks.append({
            "property_id": pid,
            "quick_cmd": "./check %s quick" % pid,
            "thorough_cmd": "./check %s thorough" % pid,
            "evidence_file": "/verif/evidence/%s.json" % pid,
            "replay_cmd_template": "./check %s quick --replay {path}" % pid,
            "engine": "tlc",
            "level_claimed": {"category": cat, "text": text, "design_ref": ref},
            "level_note": note,
            "technique": tech,
        })
    man = {
        "version": 1,
        "setup_cmd": "./setup.sh",
        "hooks": {"guard": "CPPPO_VERIF", "enable": "no source hooks: the harness wraps cpppo objects from outside "
                  "(CPPPO_VERIF=1 is set inside check processes only)",
                  "baseline_off_cmd": BASELINE, "source_commits": [], "add_only": True},
        "engines": [{"name": "tlc", "path": "/verif/verif/tlc.py", "serves_properties": sorted(CLAIMED),
                     "kind_free_text": "TLA+ specification in /verif/spec checked by TLC; bound to the code by replay "
                     "of TLC-emitted cases and TLC validation of recorded traces"}],
        "checks": checks,
        "not_applicable": [{"property_id": p, "reason": NA_REASON} for p in ALL if p not in CLAIMED],
        "notes": "See DESIGN.md.  known_findings.json lists fixed/known genuine defects.",
    }
    with open(os.path.join(ROOT, "MANIFEST.json"), "w") as f:
        json.dump(man, f, indent=1)
    print("MANIFEST.json: %d checks, %d not_applicable" % (len(checks), len(man["not_applicable"])))


if __name__ == "__main__":
    main()
