#!/bin/sh
# tools/try_mutant.sh <patchdir> <property> [tier]
#   Applies <patchdir>/patch.diff to a fresh scratch worktree of /repo HEAD (outside /repo and /verif), confirms that the
#   demonstration passes without and fails with the change, runs ./check <property> against the changed tree, prints a
#   one-line verdict and removes the worktree.  Evidence of such runs goes to a scratch dir, never to /verif/evidence.
P=$(cd "$1" && pwd); PID=$2; TIER=${3:-quick}
W=$(mktemp -d /tmp/mutrun.XXXXXX)
git -C /repo worktree add -q --detach $W/cpppo HEAD || exit 2
cd $W/cpppo
PYTHONPATH=$W timeout 300 /venv/bin/python $P/demo.py >$W/demo_clean.log 2>&1; c=$?
if ! git apply $P/patch.diff 2>$W/apply.log; then echo "RESULT $P apply-failed"; cat $W/apply.log; git -C /repo worktree remove --force $W/cpppo; rm -rf $W; exit 2; fi
PYTHONPATH=$W timeout 300 /venv/bin/python $P/demo.py >$W/demo_mut.log 2>&1; m=$?
cd /verif
VERIF_EVIDENCE_DIR=$W/evidence CPPPO_ROOT=$W/cpppo timeout 3000 ./check $PID $TIER >$W/check.log 2>&1; r=$?
echo "RESULT $P property=$PID demo_clean=$c demo_mutant=$m check_rc=$r $(grep -c '^VIOLATION' $W/check.log) violations"
grep -m3 -A1 '^VIOLATION\|^MACHINERY\|^KNOWN' $W/check.log | cut -c1-300
git -C /repo worktree remove --force $W/cpppo; rm -rf $W; git -C /repo worktree prune
