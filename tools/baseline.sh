#!/bin/bash
# tools/baseline.sh: run the repository's pinned test-suite command (from /root/.vp/BASELINE.json) against /repo, with the
# verification guard off, and compare with the list of stably passing tests: prints the stable tests that did not pass.
unset CPPPO_VERIF
out=${1:-/tmp/baseline.junit.xml}
cd /repo && /venv/bin/python -m pytest -ra -q -p no:cacheprovider --timeout=900 --continue-on-collection-errors --junitxml=$out > ${out%.xml}.log 2>&1
/venv/bin/python - "$out" <<'PY'
import json, sys, xml.etree.ElementTree as ET
base = json.load(open('/root/.vp/BASELINE.json'))
ok = set()
for tc in ET.parse(sys.argv[1]).getroot().iter('testcase'):
    if not any(ch.tag in ('failure', 'error', 'skipped') for ch in tc):
        ok.add(tc.get('classname', '').split('.')[-1] + '::' + tc.get('name'))
        ok.add(tc.get('classname', '') + '::' + tc.get('name'))
        ok.add(tc.get('classname', '').replace('.', '/') + '::' + tc.get('name'))
missing = [t for t in base['stable_pass'] if t not in ok]
print("baseline: %d stable tests, %d passed now, not passing: %s" % (len(base['stable_pass']), len(base['stable_pass']) - len(missing), missing))
sys.exit(1 if missing else 0)
PY
