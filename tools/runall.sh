#!/bin/bash
# run every registered check of a tier against the tree under test; summary on stdout, logs under $OUT (default /tmp/runall)
tier=${1:-quick}
OUT=${OUT:-/tmp/runall}
mkdir -p "$OUT"
rc_all=0
for i in $(seq -w 1 20); do
  id=C$i
  s=$(date +%s)
  timeout ${PER:-7200} ./check $id $tier > "$OUT/$id.$tier.log" 2>&1
  rc=$?
  e=$(( $(date +%s) - s ))
  echo "$id rc=$rc ${e}s $(grep -c '^KNOWN-FINDING' "$OUT/$id.$tier.log") known $(grep -c '^VIOLATION' "$OUT/$id.$tier.log") violations"
  [ $rc -ne 0 ] && rc_all=1
done
exit $rc_all
